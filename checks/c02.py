"""C02 - parsed attributes are exactly the field values the definition prescribes.

For every routed (mode, definition) of the working tree's tables and both bitfield views:
 (a) group-count plan: every count a size field can express (1-byte and bit-flag size fields
     exhaustively, 2-byte ones on a boundary set), distinct byte at every payload offset;
 (b) value plan: one field at a time, every boundary value of its type written over the
     distinct-byte background (bit flags with the neighbouring flags all 0 and all 1);
 (c) variant sweep: every discriminator value 0..255 / every length 0..64 for multi-variant
     messages.
Oracle: the reference layout walker + scalar codec (mc/refmodel/layout.py).
"""
import struct

from mc import boot  # noqa: F401
from mc import catalogue as C, engine
from mc.parsecheck import compare_parse
from mc.refmodel import core as ref, layout as L

from pyubx2 import UBXReader

PROP = "C02"


def bg(i):
    return (7 * i + 1) % 251


def boundary_raws(t):
    """Boundary raw byte strings for a plain field of type t."""
    if t == "CH":
        return [b"hello", b"\xff\xfe\x00ab", b"caf\xc3\xa9"]
    k, n = L.tletter(t), L.tsize(t)
    if k in "UELI":
        full = (1 << (8 * n)) - 1
        half = 1 << (8 * n - 1)
        vals = {0, 1, half - 1, half, full - 1, full, 0x80, 0xFF if n > 1 else 1}
        return [v.to_bytes(n, "little") for v in sorted(v for v in vals if 0 <= v <= full)]
    if k == "R":
        f = "<f" if n == 4 else "<d"
        vs = [0.0, -0.0, 1.0, -1.0, float("inf"), float("-inf"), float("nan"), 1.5e-45 if n == 4 else 5e-324, 3.4028234e38 if n == 4 else 1.7976931348623157e308, 0.1]
        return [struct.pack(f, v) for v in vs]
    if k in "XC":
        return [bytes(n), b"\xff" * n, bytes((0x41 + i % 26) for i in range(n)), b"\xc3" + bytes(n - 1)]
    if k == "A":
        return [bytes(n), b"\xff" * n, bytes(i % 256 for i in range(n))]
    return [bytes(n)]


def size_field_limits(e):
    """{size field name: max count expressible} for the counted groups of entry e."""
    names = C._size_fields(e.pdict)
    out = {}

    def scan(d):
        for name, v in d.items():
            if isinstance(v, tuple):
                numr, sub = v
                if L.is_bitfield_type(numr):
                    for fn, ft in sub.items():
                        if fn in names:
                            out[fn] = (1 << L.tsize(ft)) - 1
                else:
                    scan(sub)
            else:
                t = v[0] if isinstance(v, list) else v
                if name in names and t != "CH":
                    out[name] = (1 << (8 * L.tsize(t))) - 1
    scan(e.pdict)
    return out


def count_candidates(maxv, quick):
    if maxv <= 255:
        if quick:
            return sorted({0, 1, 2, 3, 4, 7, 15, 16, 31, 32, 63, 64, 127, 128, 254, 255} & set(range(maxv + 1)))
        return list(range(maxv + 1))
    base = [0, 1, 2, 3, 255, 256, 257, 1000]
    return [c for c in base if c <= maxv]


def cases_for_entry(e, quick):
    """Yield (kind, payload) for entry e (payloads laid out according to e)."""
    lim = size_field_limits(e)
    # (a) group-count plan
    if lim:
        names = sorted(lim)
        for nm in names:
            for c in count_candidates(lim[nm], quick):
                pl = C.build_payload(e, lambda x, nm=nm, c=c: c if x == nm else 1, 1, bg, maxlen=65535)
                if pl is not None:
                    yield ("count", pl)
        if len(names) > 1:
            for c in (0, 2, 3):
                pl = C.build_payload(e, lambda x, c=c: c, 1, bg, maxlen=65535)
                if pl is not None:
                    yield ("count", pl)
    if L.special_of(e.mode, e.clsid) == "esfmeas":
        # ESF-MEAS: with calibTtagValid set, one more data item follows the numMeas measurements
        for c in (0, 1, 2, 3, 31):
            pl = C.build_payload(e, lambda x, c=c: c, 1, bg, maxlen=65535)
            if pl is not None and len(pl) > 5:
                yield ("esfmeas-calib", pl[:4] + bytes([pl[4] | 0x08]) + pl[5:] + bytes([0x11, 0x22, 0x33, 0x0B]))
    for nm_members in (0, 1, 2, 3, 17):
        pl = C.build_payload(e, lambda x: 1, nm_members, bg, maxlen=65535)
        if pl is not None:
            yield ("none-count", pl)
            if not _has_none(e.pdict):
                break
    # (b) value plan on a base payload with 2 members per group
    base = C.build_payload(e, lambda x: 2, 2, bg, maxlen=65535)
    if base is None:
        base = C.build_payload(e, lambda x: 1, 1, bg, maxlen=65535)
    if base is None:
        return
    w, key = C.walk_frame(e.mode, e.clsid, base, True)
    if w is None or key != e.key:
        return
    seen_bf = set()
    for f in w.fields:
        if f.kind == "plain":
            for raw in boundary_raws(f.typ):
                if f.typ == "CH":
                    pl = base[: f.off] + raw
                else:
                    pl = base[: f.off] + raw + base[f.off + f.size :]
                yield ("value", pl)
        else:
            if (f.off, f.bitoff) in seen_bf:
                continue
            seen_bf.add((f.off, f.bitoff))
            mask = ((1 << f.bits) - 1) << f.bitoff
            allm = (1 << (8 * f.size)) - 1
            for others in (0, allm & ~mask):
                for v in sorted({0, 1, (1 << f.bits) - 1, 1 << (f.bits - 1)}):
                    word = others | (v << f.bitoff)
                    pl = base[: f.off] + word.to_bytes(f.size, "little") + base[f.off + f.size :]
                    yield ("flag", pl)


def _has_none(d):
    return any(isinstance(v, tuple) and v[0] == "None" for v in d.values())


def variant_cases(quick):
    """(mode, clsid, payload): every discriminator value / length for the multi-variant class/IDs."""
    from mc.refmodel.layout import GET, SET, POLL
    out = []
    disc0 = [(SET, b"\x02\x72"), (GET, b"\x02\x72"), (GET, b"\x01\x3c"), (GET, b"\x27\x09")]
    disc0 += [(SET, bytes([0x13, i])) for i in (0x00, 0x02, 0x03, 0x05, 0x06, 0x21, 0x40)] + [(GET, b"\x13\x21"), (GET, b"\x13\x60")]
    disc1 = [(GET, b"\x0b\x32"), (GET, b"\x02\x59")]
    bylen = [(POLL, b"\x06\x31"), (SET, b"\x02\x41"), (SET, b"\x0d\x15"), (SET, b"\x06\x06"), (GET, b"\x06\x17"), (GET, b"\x01\x60")]
    for mode, cid in disc0 + disc1:
        off = 0 if (mode, cid) in disc0 else 1
        for d in range(256):
            # find the length the selected definition wants: try the nominal lengths of all candidate entries
            for n in sorted(VLEN.get((mode, cid), {0})):
                pl = bytearray(bg(i) for i in range(n))
                if off < n:
                    pl[off] = d
                    out.append((mode, cid, bytes(pl)))
    for mode, cid in bylen:
        for n in range(0, 65):
            out.append((mode, cid, bytes(bg(i) for i in range(n))))
    return out


VLEN = {}


def init_vlen(ents):
    for e in ents:
        if e.routed and e.clsid:
            for c in (0, 1, 2):
                pl = C.build_payload(e, lambda x: c, c, bg, maxlen=4096)
                if pl is not None:
                    VLEN.setdefault((e.mode, e.clsid), set()).add(len(pl))


def judge(mode, clsid, payload, pbf):
    return compare_parse(mode, clsid, payload, pbf)


def replay_case(case):
    if "reader" in case:
        return _replay_reader(case)
    st, out, _ = judge(case["mode"], bytes.fromhex(case["clsid"]), bytes.fromhex(case["payload"]), case["pbf"])
    return out


def _replay_reader(case):
    import io
    order = [bytes.fromhex(f) for f in case["reader"]]
    rd = UBXReader(io.BytesIO(b"".join(order)), msgmode=case["rmode"], parsebitfield=case["pbf"], quitonerror=0)
    out = []
    try:
        got = {raw: parsed for raw, parsed in rd}
    except Exception as ex:  # noqa: BLE001
        return [(f"reader_raises|{type(ex).__name__}", str(ex))]
    for fr in order:
        cid, pl = fr[2:4], fr[6:-2]
        try:
            mode = UBXReader.parse(fr, msgmode=3).msgmode if case["rmode"] == 3 else case["rmode"]
        except Exception:  # noqa: BLE001
            continue
        w, key = C.walk_frame(mode, cid, pl, case["pbf"])
        label = f"{C.MODENAME[mode]}:{key}"
        if got.get(fr) is None:
            out.append((f"conforming_payload_refused|{label}|pbf={case['pbf']}|by_reader", ""))
            continue
        out += [(k + "|by_reader" + case.get("suffix", ""), d) for k, d in compare_parse(mode, cid, pl, case["pbf"], None, got[fr])[1]]
    return out


def record(acc, mode, clsid, payload, pbf, kind, label):
    st, out, n = judge(mode, clsid, payload, pbf)
    acc.evaluations += 1
    acc.transitions += n
    acc.extra[f"{kind}:{st}"] += 1
    if st in ("ok", "viol"):
        acc.outcomes[(label, pbf, st)] += 1
    for key, detail in out:
        acc.violation(key, {"mode": mode, "clsid": clsid.hex(), "payload": payload.hex(), "pbf": pbf, "plan": kind}, detail)
    return st


def eval_block(block, acc):
    kind = block[0]
    quick = block[-1]
    if kind == "entries":
        ents = C.entries()
        for i in block[1]:
            e = ents[i]
            if not e.routed:
                acc.note("unrouted", e.label)
                continue
            if C.invalid_types(e.pdict):
                acc.note("invalid_types", e.label)  # judged by C16
                continue
            nseen = 0
            for plan, pl in cases_for_entry(e, quick):
                for pbf in (1, 0):
                    st = record(acc, e.mode, e.clsid, pl, pbf, plan, e.label)
                    if st == "skip-invalid-types":
                        acc.note("invalid_types", e.label)
                nseen += 1
            try:
                w, _ = C.walk_frame(e.mode, e.clsid, C.build_payload(e, lambda x: 2, 2, bg) or b"", True)
                if w:
                    for f in w.fields:
                        acc.states.add((e.label, f.base, len(f.path)))
            except Exception:  # noqa: BLE001
                pass
            if nseen and len(acc.samples) < 1:
                acc.sample({"entry": e.label, "payload_cases": nseen, "last_payload": pl.hex()[:120]})
    elif kind == "crossmode":
        # every message that has definitions in more than one mode: its modes parsed one after the other in ONE
        # process, in both orders (a definition must be decoded the same whatever mode of it was parsed before)
        by = {}
        for e in C.entries():
            if e.routed and not C.invalid_types(e.pdict) and e.clsid:
                by.setdefault(e.clsid, []).append(e)
        groups = [g for _, g in sorted(by.items()) if len({x.mode for x in g}) > 1]
        for g in groups[block[1]::block[2]]:
            for order in (g, g[::-1]):
                for e in order:
                    for cnt in (2, 1):
                        pl = C.build_payload(e, lambda x: cnt, cnt, bg)
                        if pl is None:
                            continue
                        for pbf in (1, 0):
                            record(acc, e.mode, e.clsid, pl, pbf, "crossmode", e.label)
    elif kind == "reader":
        # the same decoding through a stream reader: the frames of every message defined in several modes, one
        # after the other in both orders, read by ONE reader (SET and POLL frames by a SETPOLL reader, GET frames
        # by a GET reader); each delivered message is compared with the reference like a direct parse
        import io
        by = {}
        for e in C.entries():
            if e.routed and not C.invalid_types(e.pdict) and e.clsid:
                by.setdefault(e.clsid, []).append(e)
        groups = [g for _, g in sorted(by.items()) if len({x.mode for x in g}) > 1]
        for g in groups[block[1]::block[2]]:
            for rmode, modes in ((3, (1, 2)), (0, (0,))):
                frames = {}
                for e in g:
                    if e.mode not in modes:
                        continue
                    for cnt in (2, 1):
                        pl = C.build_payload(e, lambda x: cnt, cnt, bg)
                        if pl is None:
                            continue
                        fr = ref.frame(e.clsid[0], e.clsid[1], pl)
                        if rmode == 3:
                            try:  # frames whose mode the SETPOLL heuristic itself mis-resolves are C17's business
                                if UBXReader.parse(fr, msgmode=3).msgmode != e.mode:
                                    continue
                            except Exception:  # noqa: BLE001
                                continue
                        frames.setdefault(fr, (e, pl))
                if len(frames) < 2:
                    continue
                for order in (list(frames), list(frames)[::-1]):
                    for pbf in (1, 0):
                        rd = UBXReader(io.BytesIO(b"".join(order)), msgmode=rmode, parsebitfield=pbf, quitonerror=0)
                        got = {}
                        try:
                            for raw, parsed in rd:
                                got[raw] = parsed
                                if len(got) > len(order) + 2:
                                    break
                        except Exception as ex:  # noqa: BLE001
                            acc.violation(f"reader_raises|{type(ex).__name__}", {"reader": [f.hex() for f in order], "rmode": rmode, "pbf": pbf}, str(ex))
                            continue
                        for fr in order:
                            e, pl = frames[fr]
                            acc.evaluations += 1
                            if got.get(fr) is None:
                                acc.violation(f"conforming_payload_refused|{e.label}|pbf={pbf}|by_reader", {"reader": [f.hex() for f in order], "rmode": rmode, "pbf": pbf}, f"frame {fr.hex()[:40]} not delivered")
                                continue
                            st, out, n = compare_parse(e.mode, e.clsid, pl, pbf, None, got[fr])
                            acc.transitions += n
                            for key, detail in out:
                                acc.violation(key + "|by_reader", {"reader": [f.hex() for f in order], "rmode": rmode, "pbf": pbf}, detail)
    elif kind == "alias":
        # array attributes are delivered as lists: a caller may edit a list it was given; a later parse of the same
        # (and of another) payload must still decode its own bytes
        for e in C.entries():
            if not (e.routed and not C.invalid_types(e.pdict) and e.clsid) or "A2" not in repr(e.pdict):
                continue
            for cnt in (1, 2):
                pl = C.build_payload(e, lambda x: cnt, cnt, bg)
                if pl is None:
                    continue
                for pbf in (1, 0):
                    try:
                        m1 = UBXReader.parse(ref.frame(e.clsid[0], e.clsid[1], pl), msgmode=e.mode, parsebitfield=pbf)
                        for k, v in m1.__dict__.items():
                            if isinstance(v, list) and v:
                                v[0] = (v[0] + 1) % 256
                                v.append(7)
                    except Exception:  # noqa: BLE001
                        pass
                    record(acc, e.mode, e.clsid, pl, pbf, "alias", e.label)
    elif kind == "collide":
        # consecutive frames of one message type with DIFFERENT payloads but equal class, ID, length and checksum
        # (+1, -2, +1 on three adjacent bytes), read by one reader: each delivered message decodes its own payload
        import io
        ents = [e for e in C.entries() if e.routed and not C.invalid_types(e.pdict) and e.clsid and e.mode in (0, 1)]
        for e in ents[block[1]::block[2]]:
            pl = C.build_payload(e, lambda x: 1, 1, lambda i: (5 * i + 2) % 200 + 2)
            if pl is None or len(pl) < 3:
                continue
            alts = []
            for i in sorted({0, len(pl) // 2 - 1, len(pl) - 3}):
                if 0 <= i <= len(pl) - 3:
                    a = bytearray(pl)
                    a[i] = (a[i] + 1) % 256
                    a[i + 1] = (a[i + 1] - 2) % 256
                    a[i + 2] = (a[i + 2] + 1) % 256
                    alts.append(bytes(a))
            for alt in alts:
                frames = [ref.frame(e.clsid[0], e.clsid[1], p) for p in (pl, alt, pl)]
                assert frames[0][-2:] == frames[1][-2:]
                for pbf in (1, 0):
                    rd = UBXReader(io.BytesIO(b"".join(frames)), msgmode=e.mode, parsebitfield=pbf, quitonerror=0)
                    try:
                        got = [parsed for _, parsed in rd]
                    except Exception as ex:  # noqa: BLE001
                        acc.violation(f"reader_raises|{type(ex).__name__}", {"reader": [f.hex() for f in frames], "rmode": e.mode, "pbf": pbf}, str(ex))
                        continue
                    for p, m in zip((pl, alt, pl), got):
                        acc.evaluations += 1
                        st, out, n = compare_parse(e.mode, e.clsid, p, pbf, None, m)
                        acc.transitions += n
                        for key, detail in out:
                            acc.violation(key + "|by_reader|after_frame_with_equal_checksum", {"reader": [f.hex() for f in frames], "rmode": e.mode, "pbf": pbf, "suffix": "|after_frame_with_equal_checksum"}, detail)
    elif kind == "afterfail":
        # ~1,000 operations that fail inside a group, then every definition parsed again in the same process
        from mc import failops
        acc.extra["failing_operations"] += failops.run_failing_operations()
        for e in C.entries():
            if e.routed and not C.invalid_types(e.pdict) and e.clsid:
                pl = C.build_payload(e, lambda x: 2, 2, bg)
                if pl is not None:
                    for pbf in (1, 0):
                        record(acc, e.mode, e.clsid, pl, pbf, "afterfail", e.label)
    elif kind == "cfgdb":
        # CFG-VALGET (GET) / CFG-VALSET (SET) payloads that together hold EVERY key of the configuration
        # database (32 per payload, value bytes by storage width): one attribute per key, named by the key
        from pyubx2 import UBX_CONFIG_DATABASE
        keys = list(UBX_CONFIG_DATABASE.items())
        WIDTH = {1: 1, 2: 1, 3: 2, 4: 4, 5: 8}
        for j in range(block[1], len(keys), 32 * block[2]):
            body = b""
            for n, (kid, t) in keys[j:j + 32]:
                wd = WIDTH[(kid >> 28) & 7]
                body += kid.to_bytes(4, "little") + bytes((0x41 + i + (kid & 0x0F)) & 0x7F for i in range(wd))
            for mode, cid, hdr in ((0, b"\x06\x8b", b"\x01\x00\x00\x00"), (1, b"\x06\x8a", b"\x00\x01\x00\x00")):
                for pbf in (1, 0):
                    record(acc, mode, cid, hdr + body, pbf, "cfgdb", f"{C.MODENAME[mode]}:CFG-VAL*")
    else:  # variants
        init_vlen(C.entries())
        allv = variant_cases(quick)
        for j in range(block[1], len(allv), block[2]):
            mode, cid, pl = allv[j]
            for pbf in (1, 0):
                record(acc, mode, cid, pl, pbf, "variant", f"{C.MODENAME[mode]}:{cid.hex()}")


def run_tier(tier, t0):
    q = tier == "quick"
    ents = C.entries()
    idx = list(range(len(ents)))
    blocks = [("entries", idx[i::96], q) for i in range(96)]
    blocks += [("variants", i, 16, q) for i in range(16)]
    blocks += [("cfgdb", 32 * i, 8, q) for i in range(8)]
    blocks += [("crossmode", i, 8, q) for i in range(8)]
    blocks += [("afterfail", q), ("alias", q)]
    blocks += [("reader", i, 8, q) for i in range(8)]
    blocks += [("collide", i, 8, q) for i in range(8)]
    acc = engine.sweep(blocks, eval_block)
    routed = [e for e in ents if e.routed]
    covered = {k[0] for k in acc.outcomes}
    missing = [e.label for e in routed if e.label not in covered and e.label not in acc.notes.get("invalid_types", set())]
    engine.finish(
        PROP, tier, acc, t0, replay_case,
        rule=(
            "every routed (mode, definition) x {group-count plan: each size field over "
            + ("a 16-value boundary set" if q else "every value 0..255 (1-byte / bit-flag sizes)")
            + ", 2-byte sizes on {0,1,2,3,255,256,257,1000}; variable-by-size groups with 0,1,2,3,17 members; value plan: one field at a time over its "
            "type's boundary values on a distinct-byte background, flags with neighbours all-0/all-1; variant sweep: every discriminator value 0..255 and every length 0..64} "
            "x parsebitfield {1,0}; plus CFG-VALGET / CFG-VALSET payloads holding every key of the configuration database (32 per payload), and every message defined in more than one mode parsed mode after mode in one process, both orders (directly, and as one stream through a single SETPOLL / GET reader), and every definition parsed again after a sweep of ~1,000 operations that fail inside a group. states = distinct (definition, field, nesting depth) positions of the layout; transitions = attributes compared with the "
            "reference codec. distinct_nontrivial = distinct (definition, view, verdict) classes"
        ),
        assumptions=[
            "reference layout walker written from README grammar (mc/refmodel/layout.py); scaled values compared exactly within 0.5e-12 + 4ulp (O1)",
            "a zero-length payload is the documented null payload: no attributes required (O19)",
            "payloads that do not conform to the definition the reference selects are skipped (counted), interior values of wide fields are not enumerated",
        ],
        vacuity=[
            (f"every routed definition compared at least once (missing: {missing[:5]})", not missing),
            ("variant sweep compared conforming payloads", acc.extra["variant:ok"] + acc.extra["variant:viol"] > 100),
        ],
        extra_cov={"definitions_routed": len(routed), "definitions_compared": len(covered)},
    )


if __name__ == "__main__":
    engine.main(PROP, run_tier, replay_case, eval_block)
