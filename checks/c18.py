"""C18 - scalar encodings and helper conversions are exact inverses over their domain.

Exhaustive / lattice enumeration per attribute type (all values of 1- and 2-byte types, byte
lattices for wider ones, float bit-pattern lattices), checksums against the reference Fletcher on
all byte strings up to a bound, and the documented helper pairs over their domains (every
millisecond of whole windows / of a week, all (bitfield, mask) pairs, all two-byte prefixes,
every generated attribute name).
"""
import itertools
import math
import struct
from datetime import datetime, timedelta

from mc import boot  # noqa: F401
from mc import catalogue as C, engine, streams
from mc.refmodel import core as ref, layout as L
from mc.streams import UBX_ERRORS

import pyubx2.ubxtypes_core as ubt
from pyubx2 import ubxhelpers as H
from pynmeagps import NMEA_HDR

PROP = "C18"
REFUSALS = UBX_ERRORS + (OverflowError, TypeError, ValueError, struct.error, AttributeError, IndexError)
EPOCH0 = datetime(1980, 1, 6)
WEEK_MS = 604800000


def all_types():
    ts = set()
    for n in dir(ubt):
        v = getattr(ubt, n)
        if isinstance(v, str) and n.isupper() and (L.is_type(v)) and v[0] in "ACEILRUX" and n not in ("CH",):
            if len(v) == 4 and v[1:].isdigit():
                ts.add(v)

    def scan(d):
        for v in d.values():
            if isinstance(v, tuple):
                if L.is_bitfield_type(v[0]):
                    ts.add(v[0])
                else:
                    scan(v[1])
            else:
                t = v[0] if isinstance(v, list) else v
                if L.is_type(t) and t != "CH" and t[0] in "ACEILRUX":
                    ts.add(t)

    for tab in C.TABLES.values():
        for pd in tab.values():
            scan(pd)
    for _, (kid, t) in C.UBX_CONFIG_DATABASE.items():
        ts.add(t)
    return sorted(ts)


def patterns(t, quick):
    """Byte patterns (full width) to push through bytes->value->bytes."""
    n = L.tsize(t)
    k = t[0]
    if k == "A":
        yield bytes(n)
        yield b"\xff" * n
        yield bytes(i % 256 for i in range(n))
        for i in (0, 1, n // 2, n - 1):
            yield bytes(n)[:i] + b"\x7f" + bytes(n - i - 1)
        return
    if k == "R":
        lows4 = (b"\x00\x00", b"\x01\x00", b"\xff\x7f", b"\x00\x80", b"\xff\xff")
        if n == 4:
            for hi in range(65536):
                for lo in lows4:
                    yield lo + hi.to_bytes(2, "little")
        else:
            for hi in range(65536):
                for lo in (bytes(6), b"\x01" + bytes(5), b"\xff" * 6) if not quick else (bytes(6), b"\xff" * 6):
                    yield lo + hi.to_bytes(2, "little")
        return
    if n <= 2:
        for v in range(1 << (8 * n)):
            yield v.to_bytes(n, "little")
        return
    if n <= 8:
        lat = (0x00, 0x01, 0x7F, 0x80, 0xFE, 0xFF) if not quick or n <= 6 else (0x00, 0x01, 0x7F, 0x80, 0xFF)
        for tup in itertools.product(lat, repeat=n):
            yield bytes(tup)
        for kbit in range(8 * n):
            for d in (-1, 0, 1):
                v = (1 << kbit) + d
                if 0 <= v < (1 << (8 * n)):
                    yield v.to_bytes(n, "little")
        return
    for base in (0x00, 0xFF):
        b0 = bytes([base]) * n
        yield b0
        for i in range(n):
            for x in (0x00, 0x01, 0x7F, 0x80, 0xFF):
                p = b0[:i] + bytes([x]) + b0[i + 1 :]
                yield p
                if not quick:
                    for j in range(i + 1, n):
                        yield p[:j] + bytes([x ^ 0xFF]) + p[j + 1 :]


def check_type(t, quick, acc):
    n = L.tsize(t)
    k = t[0]
    site = f"type={t}"
    for b in patterns(t, quick):
        acc.evaluations += 1
        acc.transitions += 2
        try:
            v = H.bytes2val(b, t)
        except Exception as e:  # noqa: BLE001
            acc.violation(f"bytes2val_raises|{site}|{type(e).__name__}", {"sec": "codec", "t": t, "b": b.hex()}, str(e))
            continue
        want = L.dec(b, t)
        same = (v == want and type(v) is type(want)) or (isinstance(v, float) and isinstance(want, float) and math.isnan(v) and math.isnan(want))
        if not same:
            acc.violation(f"bytes2val_wrong_value|{site}", {"sec": "codec", "t": t, "b": b.hex()}, f"got {v!r} want {want!r}")
            continue
        try:
            b2 = H.val2bytes(v, t)
        except Exception as e:  # noqa: BLE001
            acc.violation(f"val2bytes_refuses_in_range_value|{site}|{type(e).__name__}", {"sec": "codec", "t": t, "b": b.hex()}, f"{v!r}: {e}")
            continue
        if len(b2) != n:
            acc.violation(f"val2bytes_wrong_width|{site}", {"sec": "codec", "t": t, "b": b.hex()}, f"{len(b2)} bytes")
        if k == "R" and isinstance(v, float) and math.isnan(v):
            ok = len(b2) == n and math.isnan(struct.unpack("<f" if n == 4 else "<d", b2)[0])  # O13
        else:
            ok = b2 == b
        if not ok:
            acc.violation(f"bytes_value_bytes_not_identity|{site}", {"sec": "codec", "t": t, "b": b.hex()}, f"{b.hex()} -> {v!r} -> {b2.hex()}")
        acc.outcomes[(t, "roundtrip")] += 1
    if k == "R":
        # whole numbers given as Python ints are values of a float type too (its admissible types are int and float)
        for iv in (0, 1, -1, 2, 7, 255, 256, -256, 65536, 1 << 24, -(1 << 24), 10 ** 6):
            acc.evaluations += 1
            want = struct.pack("<f" if n == 4 else "<d", float(iv))
            try:
                got = H.val2bytes(iv, t)
                back = H.bytes2val(got, t)
            except Exception as e:  # noqa: BLE001
                acc.violation(f"val2bytes_refuses_in_range_value|{site}|int|{type(e).__name__}", {"sec": "nomval", "t": t}, f"{iv!r}: {e}")
                continue
            if got != want or back != float(iv):
                acc.violation(f"int_value_of_float_type_not_encoded_as_that_number|{site}", {"sec": "nomval", "t": t}, f"{iv!r} -> {got.hex()} -> {back!r}")
    # nominal value encodes to zero bytes
    try:
        z = H.val2bytes(H.nomval(t), t)
        if z != bytes(n):
            acc.violation(f"nomval_not_all_zero|{site}", {"sec": "nomval", "t": t}, z.hex())
    except Exception as e:  # noqa: BLE001
        acc.violation(f"nomval_raises|{site}|{type(e).__name__}", {"sec": "nomval", "t": t}, str(e))
    # a caller who modifies a returned (mutable) value must not change what later calls return
    try:
        a = H.nomval(t)
        if isinstance(a, list) and a:
            a[0] ^= 0xFF
            a[-1] ^= 0x01
        if isinstance(a, bytearray) and a:
            a[0] ^= 0xFF
        aliased = H.val2bytes(H.nomval(t), t) != bytes(n)
        if isinstance(a, list) and a:  # undo, so that the check itself leaves no trace
            a[0] ^= 0xFF
            a[-1] ^= 0x01
        if aliased:
            acc.violation(f"nomval_aliases_mutable_result|{site}", {"sec": "nomval", "t": t}, "second nomval() after modifying the first result no longer encodes to zero bytes")
        b = H.bytes2val(bytes(n), t)
        if isinstance(b, list) and b:
            b[0] ^= 0xFF
            bad = H.bytes2val(bytes(n), t) != L.dec(bytes(n), t)
            b[0] ^= 0xFF
            if bad:
                acc.violation(f"bytes2val_aliases_mutable_result|{site}", {"sec": "nomval", "t": t}, "")
    except Exception as e:  # noqa: BLE001
        acc.violation(f"nomval_raises|{site}|{type(e).__name__}", {"sec": "nomval", "t": t}, str(e))
    # out-of-range / wrong type / wrong length must be refused
    for bad in out_of_range(t):
        acc.evaluations += 1
        acc.transitions += 1
        try:
            r = H.val2bytes(bad, t)
        except REFUSALS:
            acc.outcomes[(t, "refused")] += 1
            continue
        except Exception as e:  # noqa: BLE001
            acc.violation(f"out_of_range_raises_unexpected|{site}|{type(e).__name__}", {"sec": "range", "t": t, "v": repr(bad)}, str(e))
            continue
        kind = "wrong_length" if isinstance(bad, (bytes, str, list)) else "out_of_range"
        acc.violation(f"val2bytes_accepts_{kind}|type={k}", {"sec": "range", "t": t, "v": repr(bad)}, f"{bad!r} -> {r.hex() if isinstance(r, bytes) else r!r}")


def out_of_range(t):
    n, k = L.tsize(t), t[0]
    if k in "UELI":
        lo, hi = L.int_range(t)
        return [lo - 1, hi + 1, hi + (1 << (8 * n)), 0.5, "1", b"\x01", None, [1]]
    if k == "R":
        big = [1e39, -1e39] if n == 4 else []
        return big + ["1.0", b"\x00" * n, None, [0.0], 1 << 2000]
    if k == "X":
        return [bytes(n - 1), bytes(n + 1), b"", "a" * n, 0, None, [0] * n]
    if k == "C":
        return [bytes(n - 1), bytes(n + 1), "a" * (n + 1), "a" * (n - 1), 0, None]
    if k == "A":
        return [[0] * (n - 1), [256] * n, [-1] * n, bytes(n), "a" * n, None, 0]
    return []


def codec_replay(case):
    acc = engine.Acc()
    sec = case["sec"]
    if sec in ("codec", "nomval", "range"):
        check_type(case["t"], True, acc) if sec != "codec" else check_one_codec(case["t"], bytes.fromhex(case["b"]), acc)
    return [(k, v[2]) for k, v in acc.viol.items()]


def check_one_codec(t, b, acc):
    global patterns
    saved = patterns
    patterns = lambda tt, q: iter([b])  # noqa: E731
    try:
        check_type(t, True, acc)
    finally:
        patterns = saved


# --- CH strings ---------------------------------------------------------------------------
def check_ch(acc):
    for n in range(0, 5):
        for tup in itertools.product("aé\x00", repeat=n):
            s = "".join(tup)
            acc.evaluations += 1
            try:
                b = H.val2bytes(s, "CH")
                back = H.bytes2val(b, "CH")
            except Exception as e:  # noqa: BLE001
                acc.violation(f"CH_roundtrip_raises|{type(e).__name__}", {"sec": "ch", "s": s}, str(e))
                continue
            if b != s.encode("utf-8") or back != s:
                acc.violation("CH_str_roundtrip", {"sec": "ch", "s": s}, f"{s!r} -> {b!r} -> {back!r}")
        for tup in itertools.product((0x61, 0xC3, 0xA9, 0xFF), repeat=n):
            b = bytes(tup)
            acc.evaluations += 1
            try:
                s = H.bytes2val(b, "CH")
            except Exception as e:  # noqa: BLE001
                acc.violation(f"CH_decode_raises|{type(e).__name__}", {"sec": "ch", "b": b.hex()}, str(e))
                continue
            if s != b.decode("utf-8", "backslashreplace"):
                acc.violation("CH_decode_value", {"sec": "ch", "b": b.hex()}, repr(s))
    acc.outcomes[("CH", "roundtrip")] += 1


# --- checksums ----------------------------------------------------------------------------
def check_checksums(block, acc):
    for data in streams.iter_block(block):
        acc.evaluations += 1
        acc.transitions += 2
        if H.calc_checksum(data) != ref.fletcher8(data):
            acc.violation("calc_checksum_differs_from_fletcher", {"sec": "cksum", "data": data.hex()}, f"{H.calc_checksum(data).hex()} vs {ref.fletcher8(data).hex()}")
        want = len(data) >= 2 and data[-2:] == ref.fletcher8(data[2:-2])
        try:
            got = H.isvalid_checksum(data)
        except Exception as e:  # noqa: BLE001
            got = f"raised {type(e).__name__}"
        if len(data) >= 4 and got != want:
            acc.violation("isvalid_checksum_disagrees", {"sec": "cksum", "data": data.hex()}, f"{got} vs {want}")
        acc.outcomes[("cksum", bool(want))] += 1


def check_checksum_long(acc):
    # long inputs (sums wrap many times) and every single-byte substitution of two frames
    for n in (255, 256, 257, 1000, 65535, 65536, 65537, 65539, 131072):
        for fill in (0xFF, 0x01, 0x80):
            d = bytes([fill]) * n
            acc.evaluations += 1
            if H.calc_checksum(d) != ref.fletcher8(d):
                acc.violation("calc_checksum_differs_from_fletcher|long", {"sec": "cksum", "data": d.hex()[:40], "n": n, "fill": fill}, "")
    # every length around each power of two from 2^6 to 2^16 (block-wise implementations change path there) and a few
    # odd ones, with content whose running sums are not trivially zero
    lens = sorted({(1 << k) + d for k in range(6, 17) for d in (-1, 0, 1, 2, 3, 255)} | {1000, 4999, 5000, 12289, 40000})
    for n in lens:
        for name, gen in (("ramp7", lambda i: (i * 7 + 3) % 256), ("ones", lambda i: 1), ("alt", lambda i: 0xFF if i % 3 else 0x10)):
            d = bytes(gen(i) for i in range(n))
            acc.evaluations += 1
            if H.calc_checksum(d) != ref.fletcher8(d):
                acc.violation("calc_checksum_differs_from_fletcher|long", {"sec": "cksum", "n": n, "fill": name}, f"length {n}, content {name}: {H.calc_checksum(d).hex()} vs {ref.fletcher8(d).hex()}")
            fr = b"\xb5\x62" + d + ref.fletcher8(d)
            if n <= 65539 and H.isvalid_checksum(fr) is not True:
                acc.violation("isvalid_checksum_disagrees|long", {"sec": "cksum", "n": n, "fill": name}, f"length {n}, content {name}")
    for tok in ("Uack", "Uunk"):
        f = streams.TOKENS[tok][2]
        for i in range(len(f)):
            for v in range(256):
                x = f[:i] + bytes([v]) + f[i + 1 :]
                acc.evaluations += 1
                want = x[-2:] == ref.fletcher8(x[2:-2])
                if H.isvalid_checksum(x) != want:
                    acc.violation("isvalid_checksum_disagrees|frame", {"sec": "cksum", "data": x.hex()}, "")
                acc.outcomes[("cksum-frame", want)] += 1


# --- time helpers ---------------------------------------------------------------------------
def check_itow_early(start_ms, stop_ms, acc):
    """The first 18 s of the week (itow < leap offset: the UTC time lies in the previous week).  utc2itow names
    such an instant (wno-1, itow + one week), so the pair is consistent iff itow2utc gives the same time of day
    for itow and itow + one week, and that time is 18 s before the week start plus itow ms."""
    for itow in range(start_ms, stop_ms):
        acc.evaluations += 1
        acc.transitions += 2
        t = H.itow2utc(itow)
        want = (EPOCH0 + timedelta(milliseconds=itow - 18000)).time()
        if t != H.itow2utc(itow + WEEK_MS) or t != want:
            acc.violation("itow2utc_wrong_before_leap_offset", {"sec": "itow_early", "itow": itow}, f"itow2utc({itow}) = {t}, itow2utc({itow + WEEK_MS}) = {H.itow2utc(itow + WEEK_MS)}, want {want}")
    acc.outcomes[("itow", "early")] += 1


def check_itow_range(wno, start_ms, stop_ms, acc):
    base = EPOCH0 + timedelta(weeks=wno)
    for itow in range(start_ms, stop_ms):
        d = base + timedelta(milliseconds=itow - 18000)
        acc.evaluations += 1
        acc.transitions += 2
        got = H.utc2itow(d)
        if got != (wno, itow):
            acc.violation("utc2itow_not_inverse|off_by_ms" if abs(got[1] - itow) <= 1 and got[0] == wno else "utc2itow_not_inverse|other",
                          {"sec": "itow", "wno": wno, "itow": itow}, f"utc2itow({d.isoformat()}) = {got}, want {(wno, itow)}")
        t = H.itow2utc(itow)
        if t != d.time():
            acc.violation("itow2utc_not_inverse", {"sec": "itow", "wno": wno, "itow": itow}, f"itow2utc({itow}) = {t}, want {d.time()}")
    acc.outcomes[("itow", wno)] += 1


# --- val2sphp -------------------------------------------------------------------------------
def check_sphp(acc, quick):
    from fractions import Fraction
    scales = (1e-7, 1e-2, 1.0, 1e-9)
    step = 997 if quick else 97
    for scale in scales:
        for i in range(-1000000, 1000001, step):
            for frac9 in (0, 1, 49, 50, 51, 99, 995, 4999, 5000, 5001, 9999):
                # value with 4 decimal digits beyond the scale unit
                v = (i + frac9 / 10000.0) * scale
                acc.evaluations += 1
                try:
                    sp, hp = H.val2sphp(v, scale)
                except Exception as e:  # noqa: BLE001
                    acc.violation(f"val2sphp_raises|{type(e).__name__}", {"sec": "sphp", "v": v, "scale": scale}, str(e))
                    continue
                q = Fraction(v) / Fraction(scale)
                err = abs(Fraction(sp) + Fraction(hp, 100) - q)
                if not isinstance(sp, int) or not isinstance(hp, int) or err > Fraction(5, 1000) + abs(q) * Fraction(1, 2**48):
                    acc.violation("val2sphp_inconsistent", {"sec": "sphp", "v": v, "scale": scale}, f"({sp},{hp}) for {v}/{scale}")
                elif sp != 0 and hp != 0 and (sp > 0) != (hp > 0):
                    acc.violation("val2sphp_sign_disagrees", {"sec": "sphp", "v": v, "scale": scale}, f"({sp},{hp})")
    acc.outcomes[("sphp", 0)] += 1


# --- get_bits / protocol / att2idx ------------------------------------------------------------
def ctz(m):
    return (m & -m).bit_length() - 1


def check_get_bits(acc):
    for b in range(256):
        for mask in range(1, 256):
            acc.evaluations += 1
            want = (b & mask) >> ctz(mask)
            got = H.get_bits(bytes([b]), mask)
            if got != want:
                acc.violation("get_bits_wrong|1byte", {"sec": "bits", "b": b, "mask": mask}, f"{got} vs {want}")
    for v in range(65536):
        bb = v.to_bytes(2, "big")
        for lo in range(16):
            for width in (1, 2, 5):
                if lo + width > 16:
                    continue
                mask = ((1 << width) - 1) << lo
                acc.evaluations += 1
                want = (v & mask) >> lo
                if H.get_bits(bb, mask) != want:
                    acc.violation("get_bits_wrong|2byte", {"sec": "bits", "b": v, "mask": mask, "n": 2}, "")
    acc.outcomes[("bits", 0)] += 1


def check_protocol(acc):
    for a in range(256):
        for b in range(256):
            for tail in (b"", b"\x00", b"\xff\xff"):
                raw = bytes((a, b)) + tail
                acc.evaluations += 1
                want = ref.classify(raw, NMEA_HDR)
                try:
                    got = H.protocol(raw)
                except Exception as e:  # noqa: BLE001
                    got = f"raised {type(e).__name__}"
                if got != want:
                    acc.violation(f"protocol_wrong|want={want}", {"sec": "proto", "raw": raw.hex()}, f"{got} vs {want}")
                acc.outcomes[("proto", want)] += 1


def check_att(acc):
    names = set()
    for e in C.entries():
        def scan(d):
            for k, v in d.items():
                if isinstance(v, tuple):
                    if L.is_bitfield_type(v[0]):
                        names.update(v[1])
                    else:
                        scan(v[1])
                names.add(k)
        scan(e.pdict)
    for base in sorted(names):
        if "_" in base:
            acc.note("names_with_underscore(O15)", base)
            continue
        acc.evaluations += 1
        if H.att2idx(base) != 0 or H.att2name(base) != base:
            acc.violation("att2idx_ungrouped", {"sec": "att", "name": base}, "")
        for i in list(range(1, 301)):
            nm = f"{base}_{i:02d}"
            acc.evaluations += 1
            if H.att2idx(nm) != i or H.att2name(nm) != base:
                acc.violation("att2idx_depth1", {"sec": "att", "name": nm}, f"{H.att2idx(nm)} {H.att2name(nm)}")
        for i, j in ((1, 1), (3, 4), (12, 99), (99, 100)):
            nm = f"{base}_{i:02d}_{j:02d}"
            acc.evaluations += 1
            if H.att2idx(nm) != (i, j) or H.att2name(nm) != base:
                acc.violation("att2idx_depth2", {"sec": "att", "name": nm}, f"{H.att2idx(nm)}")
        for idx in ((1, 2, 3), (2, 1, 10), (1, 1, 1, 1), (12, 3, 4, 99)):
            nm = base + "".join(f"_{i:02d}" for i in idx)
            acc.evaluations += 1
            if H.att2idx(nm) != idx or H.att2name(nm) != base:
                acc.violation("att2idx_depth3+", {"sec": "att", "name": nm}, f"{H.att2idx(nm)} {H.att2name(nm)}")
    acc.outcomes[("att", len(names))] += 1


def replay_case(case):
    acc = engine.Acc()
    sec = case["sec"]
    if sec == "codec":
        check_one_codec(case["t"], bytes.fromhex(case["b"]), acc)
    elif sec in ("nomval", "range"):
        check_one_codec(case["t"], bytes(L.tsize(case["t"])), acc)
    elif sec == "ch":
        check_ch(acc)
    elif sec == "cksum":
        if "n" in case:
            check_checksum_long(acc)
        else:
            d = bytes.fromhex(case["data"])
            if H.calc_checksum(d) != ref.fletcher8(d):
                acc.violation("calc_checksum_differs_from_fletcher", case, "")
            want = len(d) >= 2 and d[-2:] == ref.fletcher8(d[2:-2])
            try:
                got = H.isvalid_checksum(d)
            except Exception as e:  # noqa: BLE001
                got = None
            if len(d) >= 4 and got != want:
                acc.violation("isvalid_checksum_disagrees", case, "")
                acc.violation("isvalid_checksum_disagrees|frame", case, "")
    elif sec == "itow_early":
        check_itow_early(case["itow"], case["itow"] + 1, acc)
    elif sec == "itow":
        check_itow_range(case["wno"], case["itow"], case["itow"] + 1, acc)
    elif sec == "sphp":
        check_sphp(acc, True) if False else None
        from fractions import Fraction
        sp, hp = H.val2sphp(case["v"], case["scale"])
        q = Fraction(case["v"]) / Fraction(case["scale"])
        if abs(Fraction(sp) + Fraction(hp, 100) - q) > Fraction(5, 1000) + abs(q) * Fraction(1, 2**48):
            acc.violation("val2sphp_inconsistent", case, "")
        elif sp != 0 and hp != 0 and (sp > 0) != (hp > 0):
            acc.violation("val2sphp_sign_disagrees", case, "")
    elif sec == "bits":
        check_get_bits(acc)
    elif sec == "proto":
        check_protocol(acc)
    elif sec == "att":
        check_att(acc)
    return [(k, v[2]) for k, v in acc.viol.items()]


def eval_block(block, acc):
    kind = block[0]
    if kind == "type":
        check_type(block[1], block[2], acc)
        acc.states.add(block[1])
        if len(acc.samples) < 1:
            acc.sample({"type": block[1], "law": "val2bytes(bytes2val(b)) == b, width, nomval, refusals"})
    elif kind == "ch":
        check_ch(acc)
    elif kind == "cksum":
        check_checksums(tuple(block[1]) if block[1][0] == "short" else ("pre", block[1][1], block[1][2]), acc)
    elif kind == "cksum-long":
        check_checksum_long(acc)
    elif kind == "itow_early":
        check_itow_early(block[1], block[2], acc)
    elif kind == "itow":
        check_itow_range(block[1], block[2], block[3], acc)
    elif kind == "sphp":
        check_sphp(acc, block[1])
    elif kind == "bits":
        check_get_bits(acc)
    elif kind == "proto":
        check_protocol(acc)
    elif kind == "att":
        check_att(acc)


def run_tier(tier, t0):
    q = tier == "quick"
    types = all_types()
    blocks = [("type", t, q) for t in types]
    blocks += [("ch",), ("cksum-long",), ("sphp", q), ("bits",), ("proto",), ("att",)]
    blocks += [("cksum", list(b)) for b in streams.byte_blocks(7 if q else 8)]
    if q:
        win = 60000
        for wno in (0, 2300, 5000):
            for start in (18000, 18000 + WEEK_MS // 2, WEEK_MS - 42000, 0):
                if start == 0:
                    continue
                for a in range(start, start + win, 10000):
                    blocks.append(("itow", wno, a, a + 10000))
        for k in range(0, 20):  # float products change exponent here: 2 s from every power of two (seconds)
            a = (1 << k) * 1000
            if 18000 <= a < WEEK_MS:
                blocks.append(("itow", 2300, max(18000, a - 500), a + 2000))
        for a in (100000, 1000000, 10000000, 100000000):
            blocks.append(("itow", 0, a - 500, a + 1500))
        itow_desc = "every millisecond of 2.5 s windows at each power of two / of ten seconds, and of three 60 s windows (week start, mid-week, the last 60 s before the week rolls over incl. itow >= 604,800,000) x week numbers {0,2300,5000}"
    else:
        chunk = 2000000
        for a in range(18000, WEEK_MS + 18000, chunk):
            blocks.append(("itow", 2300, a, min(a + chunk, WEEK_MS + 18000)))
        for wno in (0, 5000):
            for a in range(18000, 18000 + 600000, 100000):
                blocks.append(("itow", wno, a, a + 100000))
        itow_desc = "every millisecond of a whole week (week 2300) and of 10 minutes at weeks 0 and 5000"
    blocks += [("itow_early", a, a + 3000) for a in range(0, 18000, 3000)]
    acc = engine.sweep(blocks, eval_block)
    engine.finish(
        PROP, tier, acc, t0, replay_case,
        rule=(
            f"{len(types)} attribute types found in the tables: all values of 1- and 2-byte types, byte lattices for 3..8 bytes, 1"
            + ("" if q else "-2") + "-byte perturbations of all-00/all-ff for wider types, float bit-pattern lattices (all 65,536 high halves), "
            "array patterns; CH strings/bytes up to length 4; refusal of min-1, max+1, wrong type, wrong length; nomval; "
            f"calc_checksum/isvalid_checksum vs reference Fletcher on all byte strings of length<={7 if q else 8} over the 8-symbol alphabet, long inputs and every 1-byte substitution of 2 frames; "
            f"utc2itow/itow2utc on {itow_desc}, itow2utc on every millisecond of the first 18 s of the week; val2sphp lattice; get_bits on all (1-byte, mask) pairs and 2-byte x run masks; protocol on all 65,536 prefixes x 3 tails; att2idx/att2name on every "
            "table name x indices 1..300. states = attribute types covered; distinct_nontrivial = distinct (section, class) outcomes"
        ),
        assumptions=[
            "R4/R8 NaN patterns: decode to NaN and re-encode to a NaN of the same width (O13)",
            "get_bits specified as (int.from_bytes(b,'big') & mask) >> ctz(mask), mask != 0 (O9)",
            "names containing an underscore are outside att2idx/att2name's contract (O15), listed",
            "out-of-range values may be refused with UBXTypeError or the built-in error the constructor translates",
        ],
        vacuity=[(f"all {len(types)} types exercised", len(acc.states) == len(types)), ("refusals observed", any(k[1] == "refused" for k in acc.outcomes))],
        extra_cov={"types": types},
    )


if __name__ == "__main__":
    engine.main(PROP, run_tier, replay_case, eval_block)
