"""C07 - the reader neither invents, duplicates, reorders nor abandons stream bytes.

Exhaustive over byte strings B(SIGMA, L) in three configuration rings and over token
sequences with preamble fragments (DESIGN §5 C07).  Oracle = invariants on every execution:
raw items are ordered, non-overlapping slices of the input, each starts with a protocol
preamble, and end-of-stream is reported only when the stream has been consumed.
"""
import itertools
import time

from mc import boot  # noqa: F401
from mc import engine, streams
from mc.streams import RecStream, TOKENS, run_reader, raw_class

PROP = "C07"


class LastStream(RecStream):
    """RecStream that remembers its last call (for finding keys)."""

    def read(self, n=-1):
        d = super().read(n)
        self.last = ("read", n, len(d))
        return d

    def readline(self, n=-1):
        d = super().readline(n)
        self.last = ("readline", n, len(d))
        return d


def full_configs():
    out = []
    for q, pf, mm, va, pa in itertools.product((0, 1), range(8), range(4), (0, 1), (True, False)):
        out.append(dict(quitonerror=q, handler=bool(q), protfilter=pf, msgmode=mm, validate=va, parsing=pa))
    return out


COVER = [
    dict(quitonerror=0, protfilter=7, msgmode=0, validate=1, parsing=True),
    dict(quitonerror=1, handler=True, protfilter=7, msgmode=3, validate=0, parsing=True),
    dict(quitonerror=1, handler=True, protfilter=2, msgmode=1, validate=1, parsing=False),
    dict(quitonerror=0, protfilter=5, msgmode=2, validate=0, parsing=True),
    dict(quitonerror=1, handler=False, protfilter=1, msgmode=0, validate=1, parsing=True, parsebitfield=0),
    dict(quitonerror=0, protfilter=4, msgmode=0, validate=0, parsing=False),
]
DEFAULT = [dict(quitonerror=1, handler=True)]


class LastDevStream(streams.DevStream):
    def read(self, n=-1):
        d = super().read(n)
        self.last = ("read", n, len(d))
        return d

    def readline(self, n=-1):
        d = super().readline(n)
        self.last = ("readline", n, len(d))
        return d


def judge(data: bytes, cfg: dict, devs=None, kind=None):
    """Run one stream; return (list of (key, detail), nreads, nitems)."""
    st = streams.STREAM_KINDS[kind](data) if kind else (LastDevStream(data, devs) if devs else LastStream(data))
    st.last = None
    r = run_reader(data, cfg, stream=st)
    out = []
    pos = 0
    for raw, _ in r.items:
        if not isinstance(raw, (bytes, bytearray)):
            out.append(("raw_not_bytes", repr(raw)))
            continue
        i = data.find(raw, pos)
        if i < 0:
            where = "reordered_or_overlapping" if data.find(raw) >= 0 else "not_a_slice"
            out.append((f"raw_{where}", f"raw={raw.hex()} after={pos}"))
        else:
            pos = i + len(raw)
        if raw_class(raw) == 0:
            out.append(("raw_bad_preamble", f"raw={raw.hex()}"))
    if r.raised is None and not r.horizon and r.tell is not None:
        if r.tell != len(data):
            last = st.last
            lk = "none" if last is None else f"{last[0]}({'0' if last[1] == 0 else 'n'})->{'0' if last[2] == 0 else 'k'}"
            out.append((f"eos_with_unread_bytes|last={lk}", f"tell={r.tell} len={len(data)} last={last}"))
    return out, r


def judge_socket(data: bytes, cfg: dict, chunk: int, bufsize: int):
    """The slice clauses for a socket-backed reader (fixed recv chunks)."""
    from pyubx2 import UBXReader
    out, items = [], []
    sock = streams.ChunkSocket(data, chunk)
    try:
        rd = UBXReader(sock, bufsize=bufsize, **streams.cfg_kwargs(cfg, (lambda e: None) if cfg.get("handler") else None))
        while len(items) <= len(data) + 4:
            raw, _ = rd.read()
            if raw is None:
                if sock.p < len(data):  # end of stream reported although the peer has more to send
                    out.append(("eos_with_unread_bytes|socket", f"socket delivered {sock.p} of {len(data)} bytes, chunk={chunk} bufsize={bufsize}"))
                break
            items.append(raw)
    except Exception:  # noqa: BLE001  (judged by C08 / C10)
        pass
    pos = 0
    for raw in items:
        i = data.find(raw, pos)
        if i < 0:
            where = "reordered_or_overlapping" if data.find(raw) >= 0 else "not_a_slice"
            out.append((f"raw_{where}|socket", f"raw={raw.hex()[:60]} after={pos} chunk={chunk} bufsize={bufsize}"))
            break
        pos = i + len(raw)
        if raw_class(raw) == 0:
            out.append(("raw_bad_preamble|socket", f"raw={raw.hex()[:60]}"))
    return out, items


def judge_pause(data: bytes, cfg: dict, i: int):
    """The i-th stream call finds the stream momentarily empty; more data follows.  read() may report end of
    stream then - but it must not go on reporting it once data is there again: the caller keeps calling read()
    (as one does with a growing file or a polled port) and everything must still be consumed, in order."""
    from pyubx2 import UBXReader
    st = streams.PauseStream(data, {i})
    out, items, eos = [], [], 0
    try:
        rd = UBXReader(st, **streams.cfg_kwargs(cfg, (lambda e: None) if cfg.get("handler") else None))
        while len(items) <= len(data) + 4:
            raw, parsed = rd.read()
            if raw is None and parsed is None:
                if st.tell() >= len(data):
                    break
                eos += 1
                if eos > 3:
                    out.append(("end_of_stream_reported_while_data_is_available", f"pause at call {i}: tell={st.tell()} of {len(data)} after {eos} end-of-stream reports"))
                    break
                continue
            items.append(raw)
    except streams.Horizon:
        out.append(("no_termination|pause", f"pause at call {i}"))
    except Exception:  # noqa: BLE001  (judged by C08)
        pass
    pos = 0
    for raw in items:
        j = data.find(raw, pos)
        if j < 0:
            out.append(("raw_not_a_slice_in_order|pause", f"raw={raw.hex()[:60]} after={pos}"))
            break
        pos = j + len(raw)
        if raw_class(raw) == 0:
            out.append(("raw_bad_preamble|pause", f"raw={raw.hex()[:60]}"))
    return out, items, st


def judge_iter(data: bytes, cfg: dict):
    """The reader is ITERATED (for raw, parsed in reader): when the iteration stops, nothing may be left unread."""
    r = run_reader(data, cfg, use_iter=True)
    out = []
    pos = 0
    for raw, _ in r.items:
        i = data.find(raw, pos)
        if i < 0:
            out.append(("raw_not_a_slice_in_order|iterated", f"raw={raw.hex()[:60]}"))
            break
        pos = i + len(raw)
    if r.raised is None and not r.horizon and r.tell is not None and r.tell != len(data):
        out.append(("iteration_stopped_with_unread_bytes", f"tell={r.tell} len={len(data)} items={len(r.items)}"))
    return out, r


CONSUME_OPS = ("read", "next", "for1", "forall")


def judge_program(data: bytes, cfg: dict, program, sk="bytesio"):
    """One reader over one stream used through a PROGRAM of consumption operations - read(), next(reader), a for
    statement left after one item (for1), a for statement run to its end (forall) - then drained with a last for
    statement.  Over the whole session the raw items must be consecutive, non-overlapping slices in stream order."""
    from pyubx2 import UBXReader
    st = streams.STREAM_KINDS[sk](data)
    out, items = [], []
    try:
        rd = UBXReader(st, **streams.cfg_kwargs(cfg, (lambda e: None) if cfg.get("handler") else None))
        for op in list(program) + ["forall"]:
            if len(items) > len(data) + 8:
                out.append(("no_termination|consumption_program", f"program={list(program)}"))
                break
            if op == "read":
                raw, parsed = rd.read()
                if raw is not None:
                    items.append(raw)
            elif op == "next":
                try:
                    raw, parsed = next(rd)
                    items.append(raw)
                except StopIteration:
                    pass
            else:
                for raw, parsed in rd:
                    items.append(raw)
                    if op == "for1" or len(items) > len(data) + 8:
                        break
    except Exception:  # noqa: BLE001  (judged by C08)
        return out, items
    pos = 0
    for raw in items:
        i = data.find(raw, pos)
        if i < 0:
            where = "reordered_or_delivered_twice" if data.find(raw) >= 0 else "not_a_slice"
            out.append((f"raw_{where}|consumption_program", f"raw={raw.hex()[:60]} after={pos} program={list(program)}"))
            break
        pos = i + len(raw)
    return out, items


SOCK_UNIT = ("Uinf", "Remb", "N1", "Uack", "UinfBad", "R1")


def replay_case(case):
    if case.get("kind") == "sock":
        return judge_socket(bytes.fromhex(case["stream"]), case["cfg"], case["chunk"], case["bufsize"])[0]
    if case.get("kind") == "socklong":
        unit = streams.seq_bytes(SOCK_UNIT)
        data = b"\x00" * case["shift"] + unit * (2 * 4096 // len(unit) + 2)
        return judge_socket(data, case["cfg"], case["chunk"], 4096)[0]
    if case.get("kind") == "sessions":
        a = engine.Acc()
        eval_block(("sessions", case["a"]), a)
        return [(k, v[2]) for k, v in a.viol.items()]
    if case.get("program") is not None:
        return judge_program(bytes.fromhex(case["stream"]), case["cfg"], case["program"], case.get("sk", "bytesio"))[0]
    if case.get("iter"):
        return judge_iter(bytes.fromhex(case["stream"]), case["cfg"])[0]
    if "pause" in case:
        return judge_pause(bytes.fromhex(case["stream"]), case["cfg"], case["pause"])[0]
    if case.get("stream_kind"):
        return [(k + f"|stream={case['stream_kind']}", d) for k, d in judge(bytes.fromhex(case["stream"]), case["cfg"], None, case["stream_kind"])[0]]
    data = bytes.fromhex(case["stream"])
    if case.get("suffix"):
        return [(k + case["suffix"], d) for k, d in judge(data, case["cfg"])[0]]
    devs = {int(k): v for k, v in case["devs"].items()} if case.get("devs") else None
    out, _ = judge(data, case["cfg"], devs)
    return [(k + "|short_read", d) for k, d in out] if devs else out


RINGS = {"full": None, "cover": COVER, "default": DEFAULT}


def eval_block(block, acc):
    kind = block[0]
    if kind == "bytes":
        _, ring, b = block
        cfgs = full_configs() if ring == "full" else RINGS[ring]
        it = streams.iter_block(tuple(b) if b[0] == "short" else ("pre", b[1], b[2]))
    elif kind == "sessions":
        # two socket sessions one after the other in this process: session B's items must be slices of B's data
        from pyubx2 import UBXReader
        a_tok = block[1]
        for b_tok in streams.FRAME_TOKENS:
            da, db = streams.seq_bytes((a_tok, "N1")), streams.seq_bytes((b_tok, "Uack"))
            for chunk, bufsize in ((3, 4), (4096, 4096)):
                for data in (da, db):
                    rd = UBXReader(streams.ChunkSocket(data, chunk), bufsize=bufsize, quitonerror=0)
                    items = []
                    try:
                        for raw, parsed in rd:
                            items.append(raw)
                            if len(items) > len(data) + 4:
                                break
                    except Exception as e:  # noqa: BLE001
                        acc.extra["raised(judged by C08)"] += 1
                    pos = 0
                    acc.evaluations += 1
                    acc.transitions += len(items) + 1
                    for raw in items:
                        i = data.find(raw, pos)
                        if i < 0:
                            acc.violation("raw_not_a_slice|second_socket_session", {"kind": "sessions", "a": a_tok, "b": b_tok, "chunk": chunk, "bufsize": bufsize}, f"raw={raw.hex()[:40]} not in this session's data")
                            break
                        pos = i + len(raw)
        return
    elif kind == "variants":
        # frames of every message whose definition is selected by payload content or LENGTH, at lengths beyond the
        # longest variant, followed by two good frames; the reader is iterated
        from mc import catalogue as C
        from mc.refmodel import core as ref
        cids = sorted({v[0] for v in list(C.VARIANT_ROUTES.values()) + list(C.ALIAS_ROUTES.values())})
        tail = streams.seq_bytes(("Uack", "N1"))
        for cid in cids[block[1]::block[2]]:
            ents = [e for e in C.entries() if e.clsid == cid and e.routed]
            lens = sorted({len(C.build_payload(e, lambda x: 1, 1) or b"") for e in ents})
            for mode in sorted({e.mode for e in ents}) + [3]:
                for n in sorted({l + d for l in lens for d in (0, 1, 2, 4, 16)}):
                    for disc in (0, 1, 0xFF):
                        pl = bytes([disc]) * min(n, 2) + bytes(max(n - 2, 0))
                        data = ref.frame(cid[0], cid[1], pl) + tail
                        for q in (0, 1):
                            cfg = dict(quitonerror=q, handler=bool(q), msgmode=mode)
                            out, r = judge_iter(data, cfg)
                            acc.evaluations += 1
                            acc.transitions += len(r.items) + 1
                            acc.outcomes[(len(r.items), ("variants",))] += 1
                            for key, detail in out:
                                acc.violation(key, {"iter": True, "stream": data.hex(), "cfg": cfg}, detail)
        return
    elif kind == "collide":
        # frames that agree in class, ID, length AND checksum bytes but not in payload: Fletcher collisions (+1,-2,+1
        # on three consecutive payload bytes) and copies with one payload byte changed under the old checksum
        from mc.refmodel import core as ref
        cid = bytes.fromhex(block[1])
        tail = streams.seq_bytes(("Uack",))
        for n in (3, 4, 8, 12, 28):
            base = bytes((5 * i + 2) % 200 + 2 for i in range(n))
            for i in range(0, n - 2):
                alt = bytearray(base)
                alt[i] += 1
                alt[i + 1] -= 2
                alt[i + 2] += 1
                fa, fb = ref.frame(cid[0], cid[1], base), ref.frame(cid[0], cid[1], bytes(alt))
                assert fa[-2:] == fb[-2:] and fa != fb
                bad = bytearray(fa)
                bad[6 + i] ^= 0x10  # same header and checksum bytes, other payload: a corrupted copy
                for data in (fa + fb + tail, fa + fb + fa + fb, fa + bytes(bad) + tail, bytes(bad) + fa + bytes(bad)):
                    for cfg in COVER:
                        out, r = judge(data, cfg)
                        acc.evaluations += 1
                        acc.transitions += len(r.items) + 1
                        acc.outcomes[(len(r.items), ("collide",))] += 1
                        for key, detail in out:
                            acc.violation(key + "|frames_with_equal_header_and_checksum", {"stream": data.hex(), "cfg": cfg, "suffix": "|frames_with_equal_header_and_checksum"}, detail)
        return
    elif kind == "programs":
        # every program of <= 3 consumption operations (read / next / for left after one item / for run out),
        # then a draining for statement, over 5-token streams x stream kinds
        import itertools
        first = block[1]
        for rest in (("N1", "Uack", "R1", "Uinf"), ("nabc", "Uack", "fb562", "N1"), ("Ubad", "N1", "Uack", "Uack")):
            seq = (first,) + rest
            data = streams.seq_bytes(seq)
            for sk in ("bytesio", "buffered", "nonseekable"):
                for cfg in COVER[:2]:
                    for n in (0, 1, 2, 3):
                        for program in itertools.product(CONSUME_OPS, repeat=n):
                            out, items = judge_program(data, cfg, program, sk)
                            acc.evaluations += 1
                            acc.transitions += len(program) + 1
                            acc.outcomes[(len(items), ("program-" + sk,))] += 1
                            for key, detail in out:
                                acc.violation(key + (f"|stream={sk}" if sk != "bytesio" else ""), {"program": list(program), "stream": data.hex(), "cfg": cfg, "sk": sk}, detail)
        return
    elif kind == "pause":
        first = block[1]
        for seq in [(first,)] + [(first, t) for t in streams.FRAME_TOKENS + streams.NOISE_TOKENS]:
            data = streams.seq_bytes(seq)
            for cfg in COVER[:2] + [COVER[3]]:
                _, r0 = judge(data, cfg)
                for i in range(r0.calls + 1):
                    out, items, st = judge_pause(data, cfg, i)
                    acc.evaluations += 1
                    acc.transitions += len(items) + 1
                    acc.outcomes[(len(items), ("pause", st.paused))] += 1
                    for key, detail in out:
                        acc.violation(key, {"pause": i, "stream": data.hex(), "cfg": cfg}, detail)
        return
    elif kind == "kinds":
        # other kinds of stream object: BufferedReader (peek/read1), pipe-like (seek/tell raise), read/readline-only
        first = block[1]
        for seq in [(first,)] + [(first, t) for t in streams.FRAME_TOKENS + streams.NOISE_TOKENS + streams.FRAG_TOKENS] + [(t, first) for t in streams.NOISE_TOKENS + streams.FRAG_TOKENS]:
            data = streams.seq_bytes(seq)
            for sk in ("buffered", "nonseekable", "minimal"):
                for cfg in COVER[:3]:
                    out, r = judge(data, cfg, None, sk)
                    acc.evaluations += 1
                    acc.transitions += len(r.items) + 1
                    acc.outcomes[(len(r.items), ("kind-" + sk,))] += 1
                    for key, detail in out:
                        acc.violation(key + f"|stream={sk}", {"stream": data.hex(), "cfg": cfg, "stream_kind": sk}, detail)
        return
    elif kind == "sock":
        # sequences of <= 2 tokens through a socket: fixed recv chunks x receive buffer sizes
        first = block[1]
        for seq in [(first,)] + [(first, t) for t in streams.FRAME_TOKENS + streams.NOISE_TOKENS + streams.FRAG_TOKENS]:
            data = streams.seq_bytes(seq)
            for cfg in COVER[:2]:
                for chunk in (1, 3, 7, 64):
                    for bufsize in (4, 8, 16, 4096):
                        out, items = judge_socket(data, cfg, chunk, bufsize)
                        acc.evaluations += 1
                        acc.transitions += len(items) + 1
                        acc.outcomes[(len(items), ("socket",))] += 1
                        for key, detail in out:
                            acc.violation(key, {"kind": "sock", "stream": data.hex(), "cfg": cfg, "chunk": chunk, "bufsize": bufsize}, detail)
        return
    elif kind == "socklong":
        # default receive buffer: a > 8 KiB stream of frames (some embedding foreign frames), every alignment
        # of the 4096-byte marks relative to the frames (shift = 0 .. one unit)
        unit = streams.seq_bytes(SOCK_UNIT)
        for shift in range(block[1], len(unit), 16):
            data = b"\x00" * shift + unit * (2 * 4096 // len(unit) + 2)
            for chunk in (4096, 1000):
                cfg = COVER[0]
                out, items = judge_socket(data, cfg, chunk, 4096)
                acc.evaluations += 1
                acc.transitions += len(items) + 1
                acc.outcomes[(min(len(items), 3), ("socket-long",))] += 1
                for key, detail in out:
                    acc.violation(key + "|default_bufsize", {"kind": "socklong", "shift": shift, "cfg": cfg, "chunk": chunk}, detail)
        return
    elif kind == "short":
        # one deviation: the i-th stream call answered short, for every i (token sequences <= 2)
        first = block[1]
        for seq in [(first,)] + [(first, t) for t in streams.FRAME_TOKENS + streams.NOISE_TOKENS]:
            data = streams.seq_bytes(seq)
            for cfg in COVER[:2]:
                _, r0 = judge(data, cfg)
                for i in range(r0.calls):
                    for sl in (1, 2):
                        out, r = judge(data, cfg, {i: sl})
                        acc.evaluations += 1
                        acc.transitions += len(r.items) + 1
                        acc.nstates += 1
                        acc.outcomes[(len(r.items), ("short-read",))] += 1
                        for key, detail in out:
                            acc.violation(key + "|short_read", {"stream": data.hex(), "cfg": cfg, "devs": {str(i): sl}}, detail)
        return
    elif kind == "swallow":
        cfgs = COVER
        it = (streams.seq_bytes(sq) for sq in streams.swallow_seqs())
    elif kind == "long":
        cfgs = COVER
        it = (streams.seq_bytes(sq) for sq in streams.long_seqs(streams.LONG_NEIGHBOURS + ["fb562", "fd300"]))
    else:  # tokens
        _, ring, first, k, alphabet = block
        cfgs = full_configs() if ring == "full" else RINGS[ring]
        it = (
            streams.seq_bytes((first,) + t)
            for t in streams.token_seqs(k - 1, alphabet)
        )
    for data in it:
        for cfg in cfgs:
            out, r = judge(data, cfg)
            acc.evaluations += 1
            nreads = len(r.items) + 1
            acc.transitions += nreads
            acc.nstates += nreads  # (stream, position) pairs: distinct by construction
            if r.raised is not None:
                acc.extra["raised(judged by C08)"] += 1
            if r.horizon:
                acc.extra["horizon(judged by C08)"] += 1
            protos = tuple(sorted({raw_class(raw) for raw, _ in r.items}))
            acc.outcomes[(len(r.items), protos)] += 1
            for key, detail in out:
                acc.violation(key, {"stream": data.hex(), "cfg": cfg}, detail)
        if len(acc.samples) < 2 and len(data) > 3:
            acc.sample({"stream": data.hex(), "items": [raw.hex() for raw, _ in r.items], "cfg": cfg})


def run_tier(tier, t0):
    q = tier == "quick"
    blocks = []
    L_full, L_cover, L_def = (4, 6, 0) if q else (5, 7, 8)
    for b in streams.byte_blocks(L_full):
        blocks.append(("bytes", "full", list(b)))
    for b in streams.byte_blocks(L_cover):
        blocks.append(("bytes", "cover", list(b)))
    if L_def:
        for b in streams.byte_blocks(L_def, split=3):
            blocks.append(("bytes", "default", list(b)))
    k = 3 if q else 4
    alphabet = streams.FRAME_TOKENS + streams.NOISE_TOKENS + streams.FRAG_TOKENS
    blocks.append(("tokens0",))
    for first in alphabet:
        blocks.append(("tokens", "cover", first, k, alphabet))
    blocks = [b for b in blocks if b[0] != "tokens0"]
    # resync ring: stray preamble bytes, rejected frames, good frames and frames missing their first byte
    for first in streams.RESYNC_ALPHABET:
        blocks.append(("tokens", "cover", first, 4 if q else 5, streams.RESYNC_ALPHABET))
    blocks.append(("long",))
    blocks.append(("swallow",))
    blocks += [("short", f) for f in streams.FRAME_TOKENS]
    blocks += [("sessions", f) for f in ("Uack", "N1", "R1")]
    blocks += [("sock", f) for f in streams.FRAME_TOKENS]
    blocks += [("kinds", f) for f in streams.FRAME_TOKENS]
    blocks += [("pause", f) for f in streams.FRAME_TOKENS]
    blocks += [("variants", i, 8) for i in range(8)]
    blocks += [("programs", f) for f in streams.FRAME_TOKENS]
    blocks += [("collide", c) for c in ("0501", "0107", "9901", "0a04")]
    blocks += [("socklong", i) for i in range(16)]
    acc = engine.sweep(blocks, eval_block)
    engine.finish(
        PROP, tier, acc, t0, replay_case,
        rule=(
            f"all byte strings over {[hex(x) for x in streams.SIGMA]}: length<={L_full} x 256 configurations, "
            f"length<={L_cover} x 6 covering configurations"
            + (f", length<={L_def} x default configuration" if L_def else "")
            + f"; all token sequences of length<={k} over {len(alphabet)} tokens (frames, noise, preamble fragments) x 6 configurations; resync ring: all sequences of length<={4 if q else 5} over {len(streams.RESYNC_ALPHABET)} tokens (single preamble bytes, rejected and good frames of each protocol, and good frames missing their first byte) x 6 configurations. "
            "Collisions: streams of 2-4 frames that agree in class, ID, length and checksum bytes but not in payload (Fletcher collisions, and copies corrupted under the old checksum), 4 class/IDs x 5 lengths x every position x 6 configurations. Consumption programs: every program of <= 3 operations from {read(), next(reader), for statement left after one item, for statement run out} followed by a draining for statement, 19 first tokens x 3 five-token streams x {BytesIO, BufferedReader, non-seekable} x 2 configurations (raw items consecutive slices over the whole session). "
            "distinct_nontrivial = distinct (number of items, set of protocols delivered) outcome classes"
        ),
        assumptions=[
            "io.BytesIO models the underlying stream; tell()==len(S) means no data left",
            "pynmeagps.NMEA_HDR defines the NMEA preambles",
            "an exception or livelock ends the run and is judged by C08, not here",
            "variant ring: frames of every message whose definition depends on payload content or length, at every variant's nominal length +0,1,2,4,16 bytes x discriminator bytes 00/01/ff x its modes and SETPOLL, followed by two good frames; the reader is iterated and must not stop with bytes unread",
            "pause ring (one deviation): for token sequences of <= 2, the i-th stream call finds the stream momentarily empty (answered b'' although more data follows), for every i; the caller keeps calling read(): everything must still be consumed, in order, and end-of-stream must not be reported more than 3 times while data is available",
            "stream-kind ring: token sequences of <= 2 through a BufferedReader, a pipe-like stream and a read/readline-only object",
            "socket ring: token sequences of <= 2 through fixed recv chunks 1,3,7,64 x bufsize 4,8,16,4096; a > 8 KiB stream at every alignment to the default 4096-byte buffer (slice clauses only; item equality with a file stream is C10's job)",
            "extra ring: every single short read (one stream call answered with 1-2 bytes although more data follows) on token sequences of <= 2",
        ],
        vacuity=[
            ("items of all three protocols were delivered", {1, 2, 4} <= {p for (_, ps) in acc.outcomes for p in ps}),
            ("runs with zero and with several items both occurred", len({n for (n, _) in acc.outcomes}) >= 3),
        ],
        extra_cov={"bounds": {"L_full": L_full, "L_cover": L_cover, "L_default": L_def, "token_depth": k}},
    )


if __name__ == "__main__":
    engine.main(PROP, run_tier, replay_case, eval_block)
