"""C01 - parsing then serializing a UBX frame reproduces it byte for byte.

Spaces (DESIGN §5 C01): (A) all 65,536 class/ID pairs x short lengths x fills x 4 msgmodes x 2
bitfield views; (B) every named class/ID x every payload length 0..nominal+16 x 4 fills x its
modes + SETPOLL x 2 views; (C) extreme lengths up to 65,535; (G) CFG-VALSET / CFG-VALGET (output and poll) / CFG-VALDEL payloads holding every key of the configuration database (32 per payload, also 0 and 1 item) x version {0,1,2,255} x layers {0,1,7} x third byte {0,1,2,3,255} x fourth byte {0,1} x 2 views; (D) consecutive pairs of frames with identical class/ID/length/checksum but different payloads; (F) for every named class/ID (and two unknown ones): payloads that are themselves complete valid frames of the same / another class/ID, with a byte added before / after or removed, x 4 modes x 2 views; (E) one frame per routed definition x every single accessor and every ordered pair of the 8 accessors (length, payload, msg_cls, msg_id, identity, msgmode, str, repr) used before the first serialize().  Oracle on every accepted frame:
serialize() == input; msg_cls / msg_id / length / payload equal the frame's fields;
eval(repr(msg)) serializes to the same bytes.
"""
from mc import boot  # noqa: F401
from mc import catalogue as C, engine, framespace as FS
from mc.refmodel import core as ref
from mc.streams import UBX_ERRORS

from pyubx2 import UBXReader, UBXMessage

PROP = "C01"
import pyubx2 as _pkg  # noqa: E402

EVAL_NS = dict(vars(_pkg))  # whatever names repr() may use from the package namespace
EVAL_NS["pyubx2"] = _pkg


def judge(cid, payload, mode, pbf):
    frame = ref.frame(cid[0], cid[1], payload)
    try:
        msg = UBXReader.parse(frame, msgmode=mode, parsebitfield=pbf)
    except UBX_ERRORS:
        return "rejected", []
    except Exception as e:  # noqa: BLE001  judged by C08
        return "foreign-exception", []
    out = []
    site = f"cls={cid[0]:02x}|{'empty' if not payload else 'nonempty'}"
    try:
        ser = msg.serialize()
    except Exception as e:  # noqa: BLE001
        return "accepted", [(f"serialize_raises|{site}|{type(e).__name__}", str(e))]
    if ser != frame:
        out.append((f"serialize_differs|{site}", f"in={frame.hex()[:80]} out={ser.hex()[:80]}"))
    try:
        if msg.msg_cls != cid[0:1] or msg.msg_id != cid[1:2]:
            out.append((f"msg_cls_id_differs|{site}", f"{msg.msg_cls!r} {msg.msg_id!r}"))
        if msg.length != len(payload):
            out.append((f"length_differs|{site}", f"{msg.length} != {len(payload)}"))
        pl = msg.payload
        if not (pl == payload or (pl is None and payload == b"")):
            out.append((f"payload_differs|{site}", f"{pl!r:.80}"))
    except Exception as e:  # noqa: BLE001
        out.append((f"accessor_raises|{site}|{type(e).__name__}", str(e)))
    try:
        rp = repr(msg)
    except Exception as e:  # noqa: BLE001
        out.append((f"repr_raises|{site}|{type(e).__name__}", str(e)))
        return "accepted", out
    try:
        m2 = eval(rp, EVAL_NS)  # pylint: disable=eval-used
        if m2.serialize() != frame:
            out.append((f"eval_repr_differs|{site}", f"repr={rp[:100]}"))
    except Exception as e:  # noqa: BLE001
        out.append((f"eval_repr_raises|{site}|{type(e).__name__}", f"{e} repr={rp[:100]}"))
    return "accepted", out


ACCESSORS = {
    "length": lambda m: m.length, "payload": lambda m: m.payload, "msg_cls": lambda m: m.msg_cls, "msg_id": lambda m: m.msg_id,
    "identity": lambda m: m.identity, "msgmode": lambda m: m.msgmode, "str": str, "repr": repr,
}


def judge_order(cid, payload, mode, pbf, order):
    """The message is inspected in the given order BEFORE it is serialized: the frame must still come back
    (the result of serialize() may not depend on which accessors were used first), and so must eval(repr)."""
    frame = ref.frame(cid[0], cid[1], payload)
    try:
        msg = UBXReader.parse(frame, msgmode=mode, parsebitfield=pbf)
    except Exception:  # noqa: BLE001
        return "rejected", []
    out = []
    try:
        vals = {a: ACCESSORS[a](msg) for a in order}
        ser = msg.serialize()
        if ser != frame:
            out.append((f"serialize_differs_after_accessors|first={order[0]}", f"order={order} in={frame.hex()[:60]} out={ser.hex()[:60]}"))
        if "length" in vals and vals["length"] != len(payload):
            out.append(("length_differs", f"{vals['length']}"))
        if eval(repr(msg), EVAL_NS).serialize() != frame:  # pylint: disable=eval-used
            out.append((f"eval_repr_differs_after_accessors|first={order[0]}", f"order={order}"))
    except Exception as e:  # noqa: BLE001
        out.append((f"accessor_order_raises|{type(e).__name__}", f"order={order}: {e}"))
    return "accepted", out


def replay_case(case):
    if case.get("order"):
        return judge_order(bytes.fromhex(case["clsid"]), bytes.fromhex(case["payload"]), case["mode"], case["pbf"], tuple(case["order"]))[1]
    return judge(bytes.fromhex(case["clsid"]), bytes.fromhex(case["payload"]), case["mode"], case["pbf"])[1]


def eval_block(block, acc):
    kind = block[0]
    ents = C.entries()
    if kind == "A":
        it = FS.space_a_block(block[1], block[2], block[3])
    elif kind == "B":
        log = set()
        it = FS.space_b_block(bytes.fromhex(block[1]), ents, block[2], log)
    elif kind == "orders":
        # every single accessor, and every ordered pair of accessors, used before the first serialize()
        import itertools
        orders = [(a,) for a in ACCESSORS] + list(itertools.permutations(ACCESSORS, 2))
        cases = []
        for e in ents[block[1]::block[2]]:
            if e.routed and e.clsid and not C.invalid_types(e.pdict):
                pl = C.build_payload(e, lambda x: 1, 1, lambda i: (3 * i + 1) % 250)
                if pl is not None:
                    cases.append((e.clsid, pl, e.mode))
        if block[1] == 0:
            cases += [(b"\x99\x01", b"abc", 0), (b"\x99\x01", b"", 0), (b"\x06\x01", b"", 2), (b"\x04\x02", b"caf\xc3\xa9 \xb0", 0)]
        for cid, pl, mode in cases:
            for pbf in (1, 0):
                for order in orders:
                    st, out = judge_order(cid, pl, mode, pbf, order)
                    acc.evaluations += 1
                    acc.transitions += len(order) + 1
                    acc.extra[st] += 1
                    for key, detail in out:
                        acc.violation(key, {"clsid": cid.hex(), "payload": pl.hex(), "mode": mode, "pbf": pbf, "order": list(order)}, detail)
        return
    elif kind == "nested":
        # payloads that are themselves complete, valid frames (of the same and of another class/ID), or that
        # begin / end with frame-like bytes: the outer frame is what must come back
        it = []
        cids = [c for c in FS.known_clsids()][block[1]::block[2]] + ([b"\x99\x01", b"\x00\x00"] if block[1] == 0 else [])
        for cid in cids:
            for inner_pl in (b"", b"\x06\x01", bytes(range(1, 9))):
                same = ref.frame(cid[0], cid[1], inner_pl)
                other = ref.frame(0x05, 0x01, inner_pl)
                for pl in (same, other, same + b"\x00", b"\x00" + same, same[:-1], same[:6]):
                    for mode in (0, 1, 2, 3):
                        for pbf in (1, 0):
                            it.append((cid, pl, mode, pbf))
    elif kind == "cfgdb":
        # configuration-database messages holding real keys (every key of the database, 32 per payload, plus
        # 0- and 1-item payloads) under every header: version x layers x transaction/position byte x reserved
        from pyubx2 import UBX_CONFIG_DATABASE
        keys = list(UBX_CONFIG_DATABASE.values())
        WIDTH = {1: 1, 2: 1, 3: 2, 4: 4, 5: 8}
        bodies = {False: [b""], True: [b""]}
        for j in list(range(block[1], len(keys), 32 * block[2])) + [len(keys) - 1]:
            chunk = keys[j:j + 32]
            for sub in (chunk, chunk[:1]):
                bodies[True].append(b"".join(kid.to_bytes(4, "little") + bytes((0x41 + i + (kid & 0x0F)) & 0x7F for i in range(WIDTH[(kid >> 28) & 7])) for kid, _ in sub))
                bodies[False].append(b"".join(kid.to_bytes(4, "little") for kid, _ in sub))
        it = []
        for cid, mode, valued in ((b"\x06\x8a", 1, True), (b"\x06\x8b", 0, True), (b"\x06\x8b", 2, False), (b"\x06\x8c", 1, False), (b"\x06\x8a", 3, True), (b"\x06\x8b", 3, False)):
            for ver in (0, 1, 2, 255):
                for lay in (0, 1, 7):
                    for b2 in (0, 1, 2, 3, 255):
                        for b3 in (0, 1):
                            for body in bodies[valued]:
                                for pbf in (1, 0):
                                    it.append((cid, bytes((ver, lay, b2, b3)) + body, mode, pbf))
    elif kind == "collide":
        # pairs of different frames with the same class, ID, length and Fletcher checksum (+1,-2,+1 on three
        # consecutive payload bytes), parsed one after the other in the same process
        cid = bytes.fromhex(block[1])
        pairs = []
        for n in (3, 4, 8, 12, 28):
            base = bytes((5 * i + 2) % 200 + 2 for i in range(n))
            for i in range(0, n - 2):
                alt = bytearray(base)
                alt[i] += 1
                alt[i + 1] -= 2
                alt[i + 2] += 1
                pairs.append((base, bytes(alt)))
        it = []
        for a, b in pairs:
            assert ref.fletcher8(cid + len(a).to_bytes(2, "little") + a) == ref.fletcher8(cid + len(b).to_bytes(2, "little") + b)
            for mode in (0, 1):
                it.append((cid, a, mode, 1))
                it.append((cid, b, mode, 1))
    else:
        it = FS.space_c()
    last = None
    for cid, pl, mode, pbf in it:
        st, out = judge(cid, pl, mode, pbf)
        acc.evaluations += 1
        acc.transitions += 1
        lc = "0" if not pl else ("short" if len(pl) < 8 else "long")
        acc.outcomes[(cid[0], mode, lc, st)] += 1
        acc.extra[st] += 1
        if kind == "B":
            acc.states.add((cid.hex(), mode, st))
        for key, detail in out:
            acc.violation(key, {"clsid": cid.hex(), "payload": pl.hex(), "mode": mode, "pbf": pbf}, detail)
        last = (cid, pl, mode, pbf, st)
    if kind == "B":
        for x in log:
            acc.note("amplifying_pairs_restricted_to_boundary_lengths", x)
        if last and len(acc.samples) < 1:
            acc.sample({"clsid": last[0].hex(), "payload_len": len(last[1]), "mode": last[2], "pbf": last[3], "verdict": last[4]})


def run_tier(tier, t0):
    q = tier == "quick"
    lengths, fills = ((0, 1, 4), ("inc", "00")) if q else ((0, 1, 2, 3, 4), ("00", "ff", "inc", "ws"))
    blocks = [("A", cls, lengths, fills) for cls in range(256)]
    blocks += [("B", cid.hex(), q) for cid in FS.known_clsids()]
    blocks.append(("C",))
    blocks += [("orders", i, 16) for i in range(16)]
    blocks += [("nested", i, 8) for i in range(8)]
    blocks += [("cfgdb", 32 * i, 8) for i in range(8)]
    blocks += [("collide", c) for c in ("0501", "0107", "0601", "9901", "0a04", "1340")]
    acc = engine.sweep(blocks, eval_block)
    engine.finish(
        PROP, tier, acc, t0, replay_case,
        rule=(
            f"(A) all 65,536 class/ID pairs x lengths {lengths} x fills {fills} x msgmode(4) x parsebitfield(2); (B) every named class/ID x "
            + ("lengths {0,1,2,nominal-1,nominal,nominal+1,nominal+16} x 3 fills (incrementing, ff, trailing NULs)" if q else "every length 0..nominal+16 x 6 fills")
            + " x its modes + SETPOLL x 2 views (count-amplifying pairs at boundary lengths only, listed); (C) extreme lengths up to 65,535; (D) consecutive pairs of frames with identical class/ID/length/checksum but different payloads; (F) for every named class/ID (and two unknown ones): payloads that are themselves complete valid frames of the same / another class/ID, with a byte added before / after or removed, x 4 modes x 2 views; (E) one frame per routed definition x every single accessor and every ordered pair of the 8 accessors (length, payload, msg_cls, msg_id, identity, msgmode, str, repr) used before the first serialize(). "
            "states = distinct (class/ID, mode, verdict) of space B; distinct_nontrivial = distinct (class, mode, length class, verdict)"
        ),
        assumptions=["frames are built by the reference framing (independent Fletcher)", "a frame the parser refuses with a UBX error is outside C01 (C08 judges it)"],
        vacuity=[
            ("accepted and rejected frames both occurred", acc.extra["accepted"] > 1000 and acc.extra["rejected"] > 1000),
        ],
        extra_cov={"accepted": acc.extra["accepted"], "rejected": acc.extra["rejected"], "foreign_exceptions_left_to_C08": acc.extra["foreign-exception"]},
    )


if __name__ == "__main__":
    engine.main(PROP, run_tier, replay_case, eval_block)
