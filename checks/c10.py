"""C10 - reader output does not depend on how the transport chunks the bytes.

Schedule enumeration of the environment: every segmentation of a byte sequence into recv()
chunks (state-merged DFS over recv answers on the real SocketWrapper + UBXReader), x receive
buffer sizes x end conditions {close, timeout, reset}.  Oracle: items equal the items read from
io.BytesIO; SocketWrapper.read(n) returns n bytes or nothing; readline() returns up to and
including the next LF (a shorter LF-less tail only when the socket has ended); everything the
wrapper hands out is, concatenated, a prefix of the byte sequence.
"""
import itertools

from mc import boot  # noqa: F401
from mc import engine, envsock, streams
from mc.refmodel import core as ref
from mc.streams import run_reader, item_sigs

PROP = "C10"
BUFSIZES = (1, 2, 3, 4, 7, 4096)
ENDS = ("close", "timeout", "reset")
CFGS = [dict(quitonerror=1, handler=True), dict(quitonerror=0, validate=0, msgmode=1, protfilter=5)]

_NS = ref.nmea_sentence("GNZDA,,,,,,")
COMPACT = {
    "Uack": ref.frame(5, 1, b"\x06\x01"),
    "U0": ref.frame(0, 0, b""),
    "Ubad": streams._bad(ref.frame(5, 1, b"\x06\x01")),
    "Ns": _NS,
    "Nbad": streams._bad(_NS, -4),
    "R2": ref.rtcm_frame(bytes([0x3E, 0xD0])),
    "Rz": ref.rtcm_frame(b""),
    "Rbad": streams._bad(ref.rtcm_frame(bytes([0x3E, 0xD0]))),
    "n00": b"\x00",
    "n0a": b"\x0a",
    "fb5": b"\xb5",
    "fb562": b"\xb5\x62",
    "f2447": b"\x24\x47",
    "fd300": b"\xd3\x00",
}
CNAMES = list(COMPACT)
LONG = [streams.TOKENS[t][2] for t in ("Uinf", "N1", "Npubx", "R1", "Remb", "Uunk")]


def judge_exec(data, want, r, sock):
    out = []
    if r.raised is not None:
        out.append((f"raised|{type(r.raised).__name__}", str(r.raised)))
    if r.horizon:
        out.append(("no_termination_after_socket_end", f"recv calls after end={sock.post_end}"))
    if not out:
        got = item_sigs(r)
        if got != want:
            i = 0
            while i < len(got) and i < len(want) and got[i] == want[i]:
                i += 1
            kind = "missing_item" if i >= len(got) else ("extra_item" if i >= len(want) else "different_item")
            out.append((f"items_differ_from_file_stream|{kind}", f"socket={[x[0].hex() for x in got]} file={[x[0].hex() for x in want]}"))
    cat = b""
    for name, req, res, p, post in sock.log:
        if not isinstance(res, bytes):
            out.append((f"{name}_returns_non_bytes", repr(res)))
            continue
        cat += res
        if name == "read" and isinstance(req, int) and len(res) not in (0, req):
            out.append(("read_returns_partial_data", f"read({req}) -> {len(res)} bytes"))
        if name == "readline":
            if res.endswith(b"\n"):
                if b"\n" in res[:-1]:
                    out.append(("readline_runs_past_lf", res.hex()))
            elif not (p >= len(data) and post > 0):
                out.append(("readline_without_lf_before_socket_end", res.hex()))
    if not data.startswith(cat):
        out.append(("wrapper_output_not_a_prefix_of_input", f"wrapper gave {cat.hex()} input {data.hex()}"))
    return out


def explore_instance(data, cfg, bufsize, end, want, acc, merge=True):
    viol = []
    outcomes = set()

    def run(ch):
        return envsock.run_socket(data, cfg, bufsize, end, ch)

    def on_exec(ch, res):
        r, sock = res
        out = judge_exec(data, want, r, sock)
        outcomes.add(tuple(x[0] for x in r.items))
        for key, detail in out:
            viol.append((key, detail, list(ch.choices)))
        if len(viol) >= 8:
            return "stop"  # a violating instance need not be explored to the end

    st = engine.explore(run, merge=merge, on_exec=on_exec, max_exec=MAX_EXEC_PER_INSTANCE)
    return st, viol, outcomes


MAX_EXEC_PER_INSTANCE = 20000  # never reached on a wrapper that honours read(n); guards against state explosion under a broken one
_FILE = {}


def file_items(data, cfg):
    k = (data, tuple(sorted(cfg.items())))
    if k not in _FILE:
        _FILE[k] = item_sigs(run_reader(data, cfg))
    return _FILE[k]


def do_instance(data, cfg, bufsize, end, acc):
    if acc.extra["violating_instances"] >= 12:
        # this block has already established a violation many times over; exploring a broken wrapper further
        # only costs time (its state space may be unbounded)
        acc.extra["instances_skipped_after_violations"] += 1
        if not any("skipped after" in c for c in acc.caps):
            acc.caps.append("instances skipped after 12 violating instances in a block")
        return
    want = file_items(data, cfg)
    st, viol, outcomes = explore_instance(data, cfg, bufsize, end, want, acc)
    acc.evaluations += st["executions"]
    acc.transitions += st["executions"]
    acc.nstates += st["states"]
    acc.extra["instances"] += 1
    if st["capped"] and not st.get("stopped_by_caller"):
        acc.caps.append(f"instance stream={data.hex()[:24]}.. bufsize={bufsize} end={end}: capped at {MAX_EXEC_PER_INSTANCE} executions")
    acc.extra["complete_executions"] += st["executions"] - st["pruned"]
    acc.outcomes[(len(want), min(len(data), 40) // 8, bufsize)] += 1
    if viol:
        acc.extra["violating_instances"] += 1
    for key, detail, choices in viol:
        acc.violation(key, {"stream": data.hex(), "cfg": cfg, "bufsize": bufsize, "end": end, "choices": choices}, detail)
    if len(data) <= 10:
        # cross-check of state merging: same outcome set without merging
        st2, viol2, outcomes2 = explore_instance(data, cfg, bufsize, end, want, acc, merge=False)
        acc.extra["unmerged_crosscheck_instances"] += 1
        acc.extra["unmerged_crosscheck_executions"] += st2["executions"]
        if outcomes2 != outcomes or {v[0] for v in viol2} != {v[0] for v in viol}:
            if not viol and not viol2:
                raise engine.Broken(f"state merging changed the outcome set for {data.hex()} bufsize={bufsize} end={end}")
            # the two explorations of the same instance disagree and at least one of them violates the oracle:
            # behaviour depends on something beyond the byte sequence and its segmentation (report what was seen)
            for key, detail, choices in viol2:
                acc.violation(key, {"stream": data.hex(), "cfg": cfg, "bufsize": bufsize, "end": end, "choices": choices}, detail)


HUGE = ("U4096", "R1023", "U256", "Nlong")


def judge_huge(tok, tail, cfg, chunk, bufsize, end):
    """Frames whose single read needs hundreds or thousands of recv() calls: fixed-chunk deliveries only
    (the segmentation space of a 4 KiB frame cannot be enumerated)."""
    data = streams.TOKENS[tok][2] + (streams.TOKENS[tail][2] if tail else b"")
    want = item_sigs(run_reader(data, cfg))
    c = dict(cfg); c["bufsize"] = bufsize
    r = run_reader(data, c, stream=streams.ChunkSocket(data, chunk, end))
    out = []
    if r.raised is not None:
        out.append((f"socket_read_raises|{type(r.raised).__name__}|long_frame", f"{tok}+{tail} chunk={chunk} bufsize={bufsize} end={end}: {r.raised}"[:200]))
    elif r.horizon:
        out.append(("socket_read_does_not_end|long_frame", f"{tok}+{tail} chunk={chunk} bufsize={bufsize} end={end}"))
    elif item_sigs(r) != want:
        out.append((f"items_differ_from_file_stream|{'missing_item' if len(r.items) < len(want) else 'other'}|long_frame", f"{tok}+{tail} chunk={chunk} bufsize={bufsize} end={end}: {len(r.items)} vs {len(want)} items"))
    return out


def judge_session(n, cfg, chunk, bufsize, end):
    """One long connection: n 4 KiB frames (more than 64 KiB consumed), then N1, Uack, N1 delivered in fixed chunks."""
    T = streams.TOKENS
    data = T["U4096"][2] * n + T["N1"][2] + T["Uack"][2] + T["N1"][2]
    want = item_sigs(run_reader(data, cfg))
    c = dict(cfg); c["bufsize"] = bufsize
    r = run_reader(data, c, stream=streams.ChunkSocket(data, chunk, end))
    what = f"session n={n} chunk={chunk} bufsize={bufsize} end={end}"
    if r.raised is not None:
        return [(f"socket_read_raises|{type(r.raised).__name__}|long_session", f"{what}: {r.raised}"[:200])]
    if r.horizon:
        return [("socket_read_does_not_end|long_session", what)]
    if item_sigs(r) != want:
        return [(f"items_differ_from_file_stream|{'missing_item' if len(r.items) < len(want) else 'other'}|long_session", f"{what}: {len(r.items)} vs {len(want)} items")]
    return []


def replay_case(case):
    if case.get("session"):
        return judge_session(case["session"][0], case["cfg"], *case["session"][1:])
    if case.get("huge"):
        return judge_huge(*case["huge"][:2], case["cfg"], *case["huge"][2:])
    data = bytes.fromhex(case["stream"])
    cfg = case["cfg"]
    want = item_sigs(run_reader(data, cfg))
    ch = engine.Chooser(case["choices"], None)
    r, sock = envsock.run_socket(data, cfg, case["bufsize"], case["end"], ch)
    return judge_exec(data, want, r, sock)


def eval_block(block, acc):
    kind = block[0]
    if kind == "huge":
        tok = block[1]
        for tail in (None, "Uack", "N1"):
            for cfg in CFGS:
                for chunk in (1, 2, 3, 7, 64, 1000, 4096):
                    for bufsize in (1, 2, 3, 64, 4096):
                        for end in ("close", "timeout"):
                            out = judge_huge(tok, tail, cfg, chunk, bufsize, end)
                            acc.evaluations += 1
                            acc.transitions += 1
                            acc.outcomes[("huge", tok, bufsize)] += 1
                            for key, detail in out:
                                acc.violation(key, {"huge": [tok, tail, chunk, bufsize, end], "cfg": cfg}, detail)
        return
    if kind == "session":
        n = block[1]
        for cfg in CFGS[:2]:
            # fixed chunks, and two-part deliveries whose boundary lies 1, 20 or 51 bytes into the sentence after the big frames
            for chunk in (7, 64, 1000, 4096, n * 4104 + 1, n * 4104 + 20, n * 4104 + 51):
                for bufsize in (64, 4096, 1 << 20):
                    for end in ("close", "timeout"):
                        out = judge_session(n, cfg, chunk, bufsize, end)
                        acc.evaluations += 1
                        acc.transitions += 1
                        acc.outcomes[("session", n, bufsize)] += 1
                        for key, detail in out:
                            acc.violation(key, {"session": [n, chunk, bufsize, end], "cfg": cfg}, detail)
        return
    if kind == "bytes":
        datas = list(streams.iter_block(tuple(block[1]) if block[1][0] == "short" else ("pre", block[1][1], block[1][2])))
        combos = list(itertools.product(BUFSIZES, ENDS))
    elif kind == "compact":
        _, first, k, bufs, ends = block
        seqs = [()] if first is None else [(first,) + t for t in streams.token_seqs(k - 1, CNAMES)]
        datas = [b"".join(COMPACT[t] for t in s) for s in seqs]
        combos = list(itertools.product(bufs, ends))
    elif kind == "compact2":
        _, first, second, k, bufs, ends = block
        seqs = [(first, second) + t for t in itertools.product(CNAMES, repeat=k - 2)]
        datas = [b"".join(COMPACT[t] for t in s) for s in seqs]
        combos = list(itertools.product(bufs, ends))
    else:  # long tokens
        _, i, bufs, ends = block
        datas = [LONG[i]] + [LONG[i] + x for x in LONG] + [LONG[i] + COMPACT[c] for c in CNAMES]
        combos = list(itertools.product(bufs, ends))
    for data in datas:
        for cfg in CFGS:
            for bufsize, end in combos:
                do_instance(data, cfg, bufsize, end, acc)
    if datas and len(acc.samples) < 1:
        acc.sample({"stream": datas[-1].hex(), "bufsizes": sorted({b for b, _ in combos}), "ends": sorted({e for _, e in combos})})


def run_tier(tier, t0):
    q = tier == "quick"
    L = 4 if q else 5
    blocks = [("bytes", list(b)) for b in streams.byte_blocks(L)]
    blocks.append(("compact", None, 0, BUFSIZES, ENDS))
    if q:
        blocks += [("compact", f, 2, BUFSIZES, ENDS) for f in CNAMES]
        blocks += [("compact", f, 3, (1, 3, 4096), ("close", "timeout")) for f in CNAMES]
        blocks += [("long", i, (3, 4096), ("close",)) for i in range(len(LONG))]
        depth = "2 (all bufsizes/ends), 3 (bufsize 1,3,4096; close,timeout)"
    else:
        blocks += [("compact", f, 3, BUFSIZES, ENDS) for f in CNAMES]
        for f in CNAMES:  # depth 4, sharded by the first two tokens
            for g in CNAMES:
                blocks.append(("compact2", f, g, 4, (1, 3, 4096), ("close", "timeout")))
        blocks += [("long", i, BUFSIZES, ENDS) for i in range(len(LONG))]
        depth = "3 (all bufsizes/ends), 4 (bufsize 1,3,4096; close,timeout)"
    blocks += [("huge", t) for t in HUGE]
    blocks += [("session", n) for n in (15, 16, 17)]  # 60, 64 and 68 KiB consumed before the last three frames
    acc = engine.sweep(blocks, eval_block)
    engine.finish(
        PROP, tier, acc, t0, replay_case,
        rule=(
            f"every recv() segmentation (chunk sizes 1..min(bufsize, remaining), state-merged DFS) of every byte string of length<={L} over the "
            f"8-symbol alphabet and of every sequence of compact tokens ({len(CNAMES)} tokens) up to depth {depth}, plus long-frame tokens singly and in pairs; "
            f"bufsize in {BUFSIZES}, end in {ENDS}, {len(CFGS)} reader configurations. states = merged (delivered, buffer, history, request) keys; "
            "transitions = recv answers explored. distinct_nontrivial = distinct (items, length class, bufsize) instance classes"
        ),
        assumptions=[
            "merging is sound because the key holds the real buffer bytes and a hash of every wrapper result the reader has seen (cross-checked unmerged for streams <= 10 bytes in this run)",
            "a free-running TCP sender is not used: the enumerated segmentations are a superset of what TCP can deliver for these sequences",
            "timeouts/resets occur only after the last byte (as in the statement)",
            "long-frame ring: 4 KiB / 1 KiB / 256-byte / 200-char frames (alone, and followed by a UBX or NMEA frame) in fixed recv chunks 1,2,3,7,64,1000,4096 x bufsize 1,2,3,64,4096 x close/timeout - fixed chunkings only, their segmentation space cannot be enumerated",
        ],
        vacuity=[
            ("some instance had several complete executions", acc.extra["complete_executions"] > acc.extra["instances"]),
            ("instances delivering >= 2 items", any(isinstance(k[0], int) and k[0] >= 2 for k in acc.outcomes)),
            ("unmerged cross-check ran", acc.extra["unmerged_crosscheck_instances"] > 0),
        ],
        extra_cov={"bounds": {"L": L, "compact_depth": depth}},
    )


if __name__ == "__main__":
    engine.main(PROP, run_tier, replay_case, eval_block)
