"""C17 - SETPOLL mode resolves every input message to its true mode.

For every SET and POLL definition and every payload conforming to it that the library can
generate (payload route, keyword route, no-keyword route; counted groups 0..3 members,
variable-by-size groups 0..16 members; two fills), the serialization is parsed with its true
mode and with msgmode=SETPOLL: mode, identity, attributes and serialization must agree.
"""
from mc import boot  # noqa: F401
from mc import catalogue as C, construct as K, engine
from mc.refmodel import layout as L
from mc.refmodel.layout import GET, SET, POLL
from mc.streams import UBX_ERRORS

from pyubx2 import UBXMessage, UBXReader

PROP = "C17"
SETPOLL = 3


def attrs(m):
    return [(k, repr(v)) for k, v in m.__dict__.items() if not k.startswith("_")]


def judge(frame: bytes, mode: int, label: str, pbf=1, validate=1):
    if pbf == "both":
        st1, o1 = judge(frame, mode, label, 1)
        st0, o0 = judge(frame, mode, label, 0)
        stv, ov = judge(frame, mode, label, 1, 0)
        out = o1 + [(k + "|pbf=0", d) for k, d in o0 if k not in [x for x, _ in o1]]
        out += [(k + "|validate=0", d) for k, d in ov if k not in [x for x, _ in o1]]
        return ("viol" if out else st1), out
    try:
        a = UBXReader.parse(frame, msgmode=mode, parsebitfield=pbf, validate=validate)
    except Exception as e:  # noqa: BLE001
        return "true-mode-refuses", []
    plen = len(frame) - 8
    lc = "0" if plen == 0 else ("1-2" if plen <= 2 else "n")
    try:
        b = UBXReader.parse(frame, msgmode=SETPOLL, parsebitfield=pbf, validate=validate)
    except Exception as e:  # noqa: BLE001
        return "viol", [(f"setpoll_refuses|{label}|len={lc}|{type(e).__name__}", f"frame={frame.hex()[:80]}: {e}")]
    out = []
    if b.msgmode != a.msgmode:
        out.append((f"setpoll_resolves_wrong_mode|{label}|len={lc}", f"frame={frame.hex()[:80]} true mode {a.msgmode}, SETPOLL gave {b.msgmode}"))
    elif a.identity != b.identity or attrs(a) != attrs(b) or a.serialize() != b.serialize():
        out.append((f"setpoll_parses_differently|{label}|len={lc}", f"frame={frame.hex()[:80]}"))
    return ("viol" if out else "ok"), out


def frames_for(e, acc):
    """Serializations the library generates for payloads conforming to e."""
    seen = set()
    kwroute = K.route_kwargs(e)
    for fillname, fill in (("00", None), ("inc", lambda i: (i + 1) & 0xFF), ("sync", lambda i: 0xB5 if i % 2 == 0 else 0x62), ("sync1", lambda i: 0xB5 if i % 2 else 0x62), ("lf", lambda i: 0x0A), ("ff", lambda i: 0xFF)):
        for c in (0, 1, 2, 3):
            nms = (0,)
            if _has_none(e.pdict):
                nms = [0, 1, 2, 3, 5, 16, 63, 64, 65]
                # member counts that bring the payload to 255/256/257/511/512/513 bytes, where reachable
                fixed = C.build_payload(e, lambda x: c, 0, None, maxlen=4096)
                one = C.build_payload(e, lambda x: c, 1, None, maxlen=4096)
                if fixed is not None and one is not None and len(one) > len(fixed):
                    ms = len(one) - len(fixed)
                    for target in (255, 256, 257, 511, 512, 513, 768):
                        if (target - len(fixed)) % ms == 0 and target >= len(fixed):
                            nms.append((target - len(fixed)) // ms)
            for nm in nms:
                pl = C.build_payload(e, lambda x: c, nm, fill, maxlen=4096)
                if pl is None:
                    continue
                w, key = C.walk_frame(e.mode, e.clsid, pl, True)
                if w is None or key != e.key or w.short or w.off != len(pl):
                    acc.extra["skipped_nonconforming"] += 1
                    continue
                if pl in seen:
                    continue
                seen.add(pl)
                try:
                    yield "payload", K.build_payload_route(e, pl).serialize()
                except UBX_ERRORS:
                    acc.extra["payload_route_refused"] += 1
                if len(pl) == 0:
                    try:
                        yield "no-keyword", UBXMessage(e.clsid[0:1], e.clsid[1:2], e.mode).serialize()
                    except UBX_ERRORS:
                        pass
            if not C._size_fields(e.pdict):
                break
    if kwroute is not None:
        for c in (0, 1, 2, 3):
            try:
                yield "keyword", K.build_kw(e, {n: c for n in C._size_fields(e.pdict)}).serialize()
            except UBX_ERRORS:
                acc.extra["keyword_route_refused"] += 1
            if not C._size_fields(e.pdict):
                break


def _has_none(d):
    return any(isinstance(v, tuple) and v[0] == "None" for v in d.values())


def judge_stream(frames, label, pbf):
    """A SETPOLL reader over the frames interleaved with NMEA / RTCM3 frames must resolve each UBX frame
    exactly as the static SETPOLL parse does (which the clause above ties to the true mode)."""
    import io
    from mc import streams
    n1, r1 = streams.TOKENS["N1"][2], streams.TOKENS["R1"][2]
    out = []
    for order in (frames, frames[::-1]):
        data = b"".join((n1 if i % 2 == 0 else r1) + f for i, f in enumerate(order)) + n1
        want = []
        for f in order:
            try:
                want.append(UBXReader.parse(f, msgmode=SETPOLL, parsebitfield=pbf))
            except Exception:  # noqa: BLE001
                pass
        got = []
        try:
            rd = UBXReader(io.BytesIO(data), msgmode=SETPOLL, parsebitfield=pbf, quitonerror=0)
            for raw, parsed in rd:
                if isinstance(parsed, UBXMessage):
                    got.append(parsed)
                if len(got) > len(order) + 2:
                    break
        except Exception as e:  # noqa: BLE001
            out.append((f"setpoll_reader_raises|{label}|{type(e).__name__}", str(e)))
            continue
        sg = [(m.msgmode, m.identity, attrs(m)) for m in got]
        sw = [(m.msgmode, m.identity, attrs(m)) for m in want]
        if sg != sw:
            i = 0
            while i < len(sg) and i < len(sw) and sg[i] == sw[i]:
                i += 1
            why = "missing" if i >= len(sg) else ("wrong_mode" if i < len(sw) and sg[i][0] != sw[i][0] else "differs")
            out.append((f"setpoll_reader_differs_from_static_parse|{label}|{why}", f"pbf={pbf} item {i}: frames={[f.hex()[:40] for f in order]}"))
    return out


def history_frames(cid_hex):
    """[(label, true mode, frame)] for every SET / POLL definition of one class/ID: first generated frame of each
    payload-length class (0, 1, 2, >= 3)."""
    acc = engine.Acc()
    out = {SET: [], POLL: []}
    for e in C.entries():
        if e.mode == GET or not e.routed or C.invalid_types(e.pdict) or e.clsid is None or e.clsid.hex() != cid_hex:
            continue
        picked = {}
        for route, frame in frames_for(e, acc):
            picked.setdefault(min(len(frame) - 8, 3), frame)
        out[e.mode] += [(e.label, e.mode, picked[k]) for k in sorted(picked)]
    return out


def judge_history(cid_hex, order):
    """In ONE process (a freshly forked worker): the frames of one mode, then the frames of the other mode of the
    same class/ID, each resolved through SETPOLL - what was resolved before must not matter."""
    fr = history_frames(cid_hex)
    seq = fr[SET] + fr[POLL] if order == "set_first" else fr[POLL] + fr[SET]
    known = set(engine.load_known(PROP))
    res = []
    for label, mode, frame in seq:
        st, out = judge(frame, mode, label, 1)
        # (a site that is an open known finding without any history keeps its key: it is the same failure)
        res.append((st, [(k if k in known else k + f"|history={order}", d) for k, d in out], frame))
    return res


def replay_case(case):
    if case.get("history"):
        return [kd for _, out, _ in judge_history(case["clsid"], case["history"]) for kd in out]
    if case.get("stream"):
        return judge_stream([bytes.fromhex(f) for f in case["stream"]], case["entry"], case["pbf"])
    return judge(bytes.fromhex(case["frame"]), case["mode"], case["entry"], "both")[1]


def eval_block(block, acc):
    ents = C.entries()
    if block and block[0] == "history":
        _, cid_hex, order = block
        for st, out, frame in judge_history(cid_hex, order):
            acc.evaluations += 1
            acc.transitions += 2
            acc.outcomes[("history", order, st)] += 1
            for key, detail in out:
                acc.violation(key, {"history": order, "clsid": cid_hex}, detail)
        return
    for i in block:
        e = ents[i]
        if e.mode == GET or not e.routed or C.invalid_types(e.pdict):
            continue
        n = 0
        picked = {}
        for route, frame in frames_for(e, acc):
            picked.setdefault(min(len(frame) - 8, 3), frame)
            st, out = judge(frame, e.mode, e.label, "both")
            acc.evaluations += 1
            acc.transitions += 2
            acc.outcomes[(e.mode, route, st)] += 1
            n += 1
            for key, detail in out:
                acc.violation(key, {"frame": frame.hex(), "mode": e.mode, "entry": e.label, "route": route}, detail)
        if picked:
            fs = [picked[k] for k in sorted(picked)]
            for pbf in (1, 0):
                out = judge_stream(fs, e.label, pbf)
                acc.evaluations += 2
                acc.transitions += 4 * len(fs) + 2
                acc.outcomes[(e.mode, "stream", "viol" if out else "ok")] += 1
                for key, detail in out:
                    acc.violation(key, {"stream": [f.hex() for f in fs], "entry": e.label, "pbf": pbf}, detail)
        acc.states.add(e.label)
        if n and len(acc.samples) < 1:
            acc.sample({"entry": e.label, "frames": n, "last": frame.hex()[:60]})


def run_tier(tier, t0):
    ents = C.entries()
    idx = list(range(len(ents)))
    both = sorted({e.clsid.hex() for e in ents if e.mode == SET and e.routed and e.clsid} & {e.clsid.hex() for e in ents if e.mode == POLL and e.routed and e.clsid})
    blocks = [idx[i::32] for i in range(32)] + [("history", c, o) for c in both for o in ("set_first", "poll_first")]
    acc = engine.sweep(blocks, eval_block)
    nsp = sum(1 for e in ents if e.mode != GET and e.routed and not C.invalid_types(e.pdict))
    engine.finish(
        PROP, tier, acc, t0, replay_case,
        rule=(
            "every routed SET and POLL definition x conforming payloads (counted groups 0..3 members, variable-by-size groups {0,1,2,3,5,16,63,64,65} members and the member counts that give payloads of 255..257, 511..513, 768 bytes, fills 00 / incrementing / the sync characters b5 62 repeated, at both alignments / all 0a / all ff) generated by the "
            "payload route, the keyword route and (for empty payloads) the no-keyword route; each frame parsed with its true mode and with SETPOLL, in both bitfield views and under both validate settings. Same enumeration in both tiers. "
            "distinct_nontrivial = (mode, route, verdict) classes"
        ),
        assumptions=["conformance of a payload is decided by the reference layout, not by the parser", f"history ring: for each of the {len(both)} class/IDs defined in both SET and POLL mode, in a freshly forked process: all its SET frames then all its POLL frames (and the reverse order), each resolved through SETPOLL", "stream ring: for every definition, its frames of payload length 0, 1, 2 and >= 3 (first generated of each class) interleaved with NMEA and RTCM3 frames, both orders, read by a SETPOLL reader in both bitfield views: each delivered UBX message must equal the static SETPOLL parse"],
        vacuity=[(f"all {nsp} SET/POLL definitions generated at least one frame", len(acc.states) == nsp)],
        exhaustive=True,
        extra_cov={"definitions": len(acc.states)},
    )


if __name__ == "__main__":
    engine.main(PROP, run_tier, replay_case, eval_block)
