"""C12 - quitonerror decides how a rejected frame is reported, not which frames arrive.

Exhaustive over token sequences (good and boundary-preserving rejected frames of the three
protocols, noise; plus fragments for the differential part) and over byte strings B(SIGMA, L),
x quitonerror {IGNORE, LOG, RAISE} x handler present/absent.
"""
from mc import boot  # noqa: F401
from mc import engine, streams
from mc.streams import TOKENS, run_reader, item_sigs, exc_sig, LOGCAP

PROP = "C12"
CLEAN_ALPHABET = streams.FRAME_TOKENS + streams.NOISE_TOKENS
ALPHABET = CLEAN_ALPHABET + streams.FRAG_TOKENS
BASES = [dict(), dict(validate=0, msgmode=1), dict(msgmode=3, parsebitfield=0), dict(protfilter=5), dict(protfilter=2), dict(protfilter=3, validate=0)]
_VT = {}


def vt(cfg):
    k = (cfg.get("msgmode", 0), cfg.get("validate", 1), cfg.get("parsebitfield", 1))
    if k not in _VT:
        _VT[k] = streams.verdict_table(cfg)
    return _VT[k]


KIND = [None]  # stream object kind for the current judgement (None = BytesIO)


def run(data, base, q, handler, devs=None):
    cfg = dict(base)
    cfg["quitonerror"] = q
    cfg["handler"] = handler
    del LOGCAP.records[:]
    st = streams.DevStream(data, devs) if devs else (streams.STREAM_KINDS[KIND[0]](data) if KIND[0] else None)
    r = run_reader(data, cfg, stream=st)
    r.logrecs = list(LOGCAP.records)
    return r


class Slots:
    pass


def judge(data, base, seq=None, devs=None):
    out = []
    r_ign = run(data, base, 0, False, devs)
    r_ignh = run(data, base, 0, True, devs)
    r_log = run(data, base, 1, True, devs)
    r_lognh = run(data, base, 1, False, devs)
    r_raise = run(data, base, 2, True, devs)
    r_raisenh = run(data, base, 2, False, devs)
    r_logobj = run(data, base, 1, "object", devs)  # the handler is a callable *object* that is falsy (an empty collection)
    n = 7
    for name, r in (("ignore", r_ign), ("ignore+h", r_ignh), ("log", r_log), ("log-nohandler", r_lognh)):
        if r.raised is not None:
            out.append((f"raised_under_{name}|{type(r.raised).__name__}", str(r.raised)))
        if r.horizon:
            out.append((f"no_termination_under_{name}", ""))
    if out:
        return out, n, r_log
    i_ign, i_log, i_lognh = item_sigs(r_ign), item_sigs(r_log), item_sigs(r_lognh)
    if i_ign != i_log or item_sigs(r_ignh) != i_ign:
        out.append(("ignore_and_log_deliver_different_items", f"ignore={[x[0].hex() for x in i_ign]} log={[x[0].hex() for x in i_log]}"))
    if i_lognh != i_log:
        out.append(("handler_presence_changes_items", ""))
    if r_ign.errors or r_ignh.errors or r_ign.logrecs or r_ignh.logrecs:
        out.append(("ignore_reports_errors", f"handler calls={len(r_ignh.errors)} log records={len(r_ign.logrecs)}"))
    # handler absent: same number of log records, same messages; handler present: no log records
    if [m for (_, _, m) in r_lognh.logrecs] != [str(e) for e in r_log.errors]:
        out.append(("log_records_differ_from_handler_calls", f"records={r_lognh.logrecs[:3]} handler={[exc_sig(e) for e in r_log.errors][:3]}"))
    if r_log.logrecs:
        out.append(("handler_and_logger_both_used", f"{r_log.logrecs[:2]}"))
    if r_logobj.raised is not None or [exc_sig(e) for e in r_logobj.errors] != [exc_sig(e) for e in r_log.errors] or item_sigs(r_logobj) != i_log or r_logobj.logrecs:
        out.append(("handler_object_treated_differently_from_handler_function", f"object handler: {len(r_logobj.errors)} calls, {len(r_logobj.logrecs)} log records; function handler: {len(r_log.errors)} calls"))
    # by construction (boundary-preserving sequences): one handler call per rejected token, in order
    if seq is not None and not devs and all(TOKENS[t][1] != "frag" for t in seq):
        table = vt(base)
        exp_events = []
        mask = base.get("protfilter", 7)
        for t in seq:
            if TOKENS[t][1] != "frame" or not (TOKENS[t][0] & mask):
                continue  # a frame of a filtered-out protocol is framed and dropped: neither an item nor an error
            v = table[t]
            exp_events.append(("item", TOKENS[t][2]) if v[0] == "ok" else ("err", v[1]))
        got_events = [
            ("item", r_log.items[i][0]) if kind == "item" else ("err", exc_sig(r_log.errors[i]))
            for kind, i in r_log.events
        ]
        if got_events != exp_events:
            ne, ng = sum(1 for e in exp_events if e[0] == "err"), sum(1 for e in got_events if e[0] == "err")
            kind = "handler_call_count" if ne != ng else "event_order_or_exception"
            out.append((f"log_events_not_one_per_rejected_frame|{kind}", f"expected {exp_events} got {got_events}"))
    # RAISE: same items up to the first error event, then that same exception
    for name, rr in (("raise", r_raise), ("raise-nohandler", r_raisenh)):
        first_err = next((j for j, (k, _) in enumerate(r_log.events) if k == "err"), None)
        if rr.horizon:
            out.append((f"no_termination_under_{name}", ""))
            continue
        if first_err is None:
            if rr.raised is not None:
                out.append((f"{name}_raises_without_error_event", exc_sig(rr.raised)[0]))
            elif item_sigs(rr) != i_log:
                out.append((f"{name}_items_differ_on_error_free_stream", ""))
        else:
            want_items = [i_log[i] for (k, i) in r_log.events[:first_err] if k == "item"]
            want_exc = exc_sig(r_log.errors[r_log.events[first_err][1]])
            if item_sigs(rr) != want_items:
                out.append((f"{name}_items_before_first_error_differ", f"got {len(rr.items)} want {len(want_items)}"))
            if exc_sig(rr.raised) != want_exc:
                out.append((f"{name}_raises_different_exception", f"got {exc_sig(rr.raised)} want {want_exc}"))
        if rr.errors or rr.logrecs:
            out.append((f"{name}_also_reports_via_handler_or_log", ""))
    return out, n, r_log


def replay_case(case):
    if case.get("run"):
        data = streams.TOKENS[case["run"][0]][2] * case["run"][1] + streams.seq_bytes(("Uack", "N1", "R1"))
        return [(k + "|long_run", d[:200]) for k, d in judge(data, case["base"], None)[0]]
    if case.get("stream_kind"):
        KIND[0] = case["stream_kind"]
        try:
            return [(k + f"|stream={case['stream_kind']}", d) for k, d in judge(bytes.fromhex(case["stream"]), case["base"], tuple(case["tokens"]))[0]]
        finally:
            KIND[0] = None
    data = bytes.fromhex(case["stream"])
    seq = tuple(case["tokens"]) if case.get("tokens") else None
    devs = {int(k): v for k, v in case["devs"].items()} if case.get("devs") else None
    out = judge(data, case["base"], seq, devs)[0]
    return [(k + "|short_read", d) for k, d in out] if devs else out


def eval_block(block, acc):
    if block[0] == "bytes":
        it = ((d, None) for d in streams.iter_block(tuple(block[1]) if block[1][0] == "short" else ("pre", block[1][1], block[1][2])))
    elif block[0] == "short":
        # one deviation: the i-th stream call is answered short (1 or 2 bytes), for every i
        _, first = block
        for seq in [(first,)] + [(first, t) for t in CLEAN_ALPHABET]:
            data = streams.seq_bytes(seq)
            for base in BASES[:2]:
                ncalls = run(data, base, 0, False).calls
                for i in range(ncalls):
                    for sl in (1, 2):
                        out, n, r_log = judge(data, base, seq, {i: sl})
                        acc.evaluations += n
                        acc.transitions += n
                        acc.outcomes[("short-read", len(r_log.items) > 0, min(len(r_log.errors), 3))] += 1
                        for key, detail in out:
                            acc.violation(key + "|short_read", {"stream": data.hex(), "tokens": list(seq), "base": base, "devs": {str(i): sl}}, detail)
        return
    elif block[0] == "kinds":
        # other kinds of stream object (pipe-like: seek/tell raise; read/readline only; BufferedReader): same 7 policy runs
        first = block[1]
        for seq in [(first,)] + [(first, t) for t in CLEAN_ALPHABET]:
            data = streams.seq_bytes(seq)
            for kind in ("nonseekable", "minimal", "buffered"):
                for base in BASES[:2] + BASES[3:4]:
                    KIND[0] = kind
                    try:
                        out, n, r_log = judge(data, base, seq)
                    finally:
                        KIND[0] = None
                    acc.evaluations += n
                    acc.transitions += n
                    acc.outcomes[("kind", len(r_log.items) > 0, min(len(r_log.errors), 3))] += 1
                    for key, detail in out:
                        acc.violation(key + f"|stream={kind}", {"stream": data.hex(), "tokens": list(seq), "base": base, "stream_kind": kind}, detail)
        return
    elif block[0] == "runs":
        # 1,100 consecutive rejected frames (more than Python's recursion limit) and then three good frames
        tok, n = block[1], block[2]
        data = streams.TOKENS[tok][2] * n + streams.seq_bytes(("Uack", "N1", "R1"))
        for base in BASES:
            out, m, r_log = judge(data, base, None)
            acc.evaluations += m
            acc.transitions += m
            acc.outcomes[("run", len(r_log.items) > 0, min(len(r_log.errors), 3))] += 1
            for key, detail in out:
                acc.violation(key + "|long_run", {"run": [tok, n], "base": base}, detail[:200])
        return
    elif block[0] == "long":
        it = ((streams.seq_bytes(s), s) for s in streams.long_seqs(streams.LONG_NEIGHBOURS))
    else:
        _, first, k, alpha = block
        alphabet = CLEAN_ALPHABET if alpha == "clean" else ALPHABET
        seqs = [()] if first is None else ((first,) + t for t in streams.token_seqs(k - 1, alphabet))
        it = ((streams.seq_bytes(s), s) for s in seqs)
    for data, seq in it:
        for base in BASES:
            out, n, r_log = judge(data, base, seq)
            acc.evaluations += n
            acc.transitions += n
            acc.nstates += n
            acc.outcomes[(len(r_log.items) > 0, min(len(r_log.errors), 3))] += 1
            acc.extra["handler_calls"] += len(r_log.errors)
            for key, detail in out:
                acc.violation(key, {"stream": data.hex(), "tokens": list(seq) if seq is not None else None, "base": base}, detail)
        if seq and len(seq) == 3 and len(acc.samples) < 1:
            acc.sample({"tokens": list(seq), "log_events": [k for k, _ in r_log.events]})


def run_tier(tier, t0):
    q = tier == "quick"
    L, k, kf = (5, 3, 2) if q else (6, 4, 3)
    blocks = [("bytes", list(b)) for b in streams.byte_blocks(L)]
    blocks += [("tokens", None, 0, "clean")] + [("tokens", f, k, "clean") for f in CLEAN_ALPHABET]
    blocks += [("tokens", f, kf, "all") for f in ALPHABET]
    blocks.append(("long",))
    blocks += [("short", f) for f in streams.FRAME_TOKENS]
    blocks += [("kinds", f) for f in streams.FRAME_TOKENS]
    blocks += [("runs", t, 1100) for t in ("Ubad", "Nbad", "Rbad", "Ntype")]
    acc = engine.sweep(blocks, eval_block)
    engine.finish(
        PROP, tier, acc, t0, replay_case,
        rule=(
            f"every byte string of length<={L}; every sequence of <= {k} frame/noise tokens (by-construction handler-event oracle) and of <= {kf} "
            f"tokens incl. fragments (differential only) x quitonerror(3) x handler present/absent (function; under ERR_LOG also a callable object that is falsy); plus, for every sequence of <= 2 tokens starting with a frame, every single short read (the i-th stream call answered with 1 or 2 bytes although more data follows) x {len(BASES)} base configurations (three of them with a restricted protfilter). "
            "distinct_nontrivial = distinct (items delivered?, handler calls capped at 3) classes"
        ),
        assumptions=[
            "a rejected frame's exception is what the protocol parser raises for the token standalone (O4)",
            "extra rings: token sequences of <= 2 through a pipe-like stream (seek/tell raise), a read/readline-only object and a BufferedReader; boundary-length and content-refused frames between neighbour pairs; runs of 1,100 consecutive rejected frames of each protocol followed by three good frames",
            "without an error handler the reader reports through the logging module (records captured at the root logger)",
        ],
        vacuity=[
            ("runs with >=2 handler calls and runs with none", any(k[-1] >= 2 for k in acc.outcomes) and any(k[-1] == 0 for k in acc.outcomes)),
        ],
        extra_cov={"bounds": {"L": L, "token_depth_clean": k, "token_depth_fragments": kf}},
    )


if __name__ == "__main__":
    engine.main(PROP, run_tier, replay_case, eval_block)
