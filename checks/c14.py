"""C14 - configuration-database messages carry exactly the keys and values given.

Every key of UBX_CONFIG_DATABASE x {by name, by ID} x values (all 256 for 1-byte types, all
65,536 for one key per 2-byte type, boundary sets otherwise, out-of-range values) through
config_set / config_del / config_poll; lists of every length 0..64 (+65,66,100), ordered pairs
and triples over one key per type, header values; unknown key IDs for size codes 1..5.
Oracle: reference config-db codec (header + LE32 key + value at size-code width) on the
produced payload, and the reference expectation for what parsing that payload must expose.
"""
import itertools
import struct

from mc import boot  # noqa: F401
from mc import catalogue as C, engine
from mc.refmodel import core as ref, layout as L
from mc.streams import UBX_ERRORS

from pyubx2 import UBXMessage, UBXReader
from pyubx2 import ubxhelpers as H
import pyubx2.exceptions as ube
from pyubx2.ubxtypes_configdb import UBX_CONFIG_DATABASE

PROP = "C14"
DB = list(UBX_CONFIG_DATABASE.items())  # [(name, (id, type))]
WIDTH = {1: 1, 2: 1, 3: 2, 4: 4, 5: 8}


def first_name(kid):
    return C.CFGDB_BY_ID[kid][0]


def ref_value_bytes(kid, t, val):
    w = WIDTH[(kid >> 28) & 7]
    b = L.enc(val, t)
    if len(b) != w:
        raise ValueError("width")
    return b


def boundary_values(t, exhaustive):
    k, n = t[0], L.tsize(t)
    if k in "UELI":
        lo, hi = L.int_range(t)
        if n == 1 or (n == 2 and exhaustive):
            return list(range(lo, hi + 1))
        vs = {lo, lo + 1, -1, 0, 1, 2, hi // 2, hi // 2 + 1, hi - 1, hi, 127, 128, 255, 256, 65535, 65536}
        return sorted(v for v in vs if lo <= v <= hi)
    if k == "R":
        return [0.0, -0.0, 1.0, -1.5, 1e-30, 3.0e38 if n == 4 else 1.7e308, 123456.789, float("inf"), 1, -2, 6378137]  # ints are acceptable for float keys
    if k == "X":
        return [bytes(n), b"\xff" * n, bytes(range(1, n + 1)), b"\x80" + bytes(n - 1)]
    if k == "C":
        return [bytes(n), b"A" * n]
    return []


def bad_values(t):
    k, n = t[0], L.tsize(t)
    if k in "UELI":
        lo, hi = L.int_range(t)
        return [lo - 1, hi + 1, 1 << 70, 0.5, "1", None, b"\x01"]
    if k == "R":
        return ["1", None, b"\x00\x00\x00\x00"] + ([1e39] if n == 4 else [])
    if k == "X":
        return [bytes(n + 1), bytes(n - 1), 1, None, "x" * n]
    return [None]


def attrs(m):
    return [(k, v) for k, v in m.__dict__.items() if not k.startswith("_")]


def values_equal(a, b):
    if isinstance(a, float) and isinstance(b, float):
        return struct.pack("<d", a) == struct.pack("<d", b)
    return type(a) is type(b) and a == b


def expect_parsed_items(items):
    """[(name, value)] parsing must expose for reference items [(kid, valbytes)] (last wins on duplicates)."""
    out, seen = [], {}
    for kid, vb in items:
        ent = C.CFGDB_BY_ID.get(kid)
        if ent:
            nm, val = ent[0], L.dec(vb, ent[1])
        else:
            nm, val = f"CFG_{hex(kid)}", bytes(vb)
        if nm in seen:
            out[seen[nm]] = (nm, val)
        else:
            seen[nm] = len(out)
            out.append((nm, val))
    return out


def check_parse(payload, mode, header_names, items, site):
    """Parse payload as CFG-VALSET (SET) or CFG-VALGET (GET) and compare attributes."""
    cid = b"\x06\x8a" if mode in (1, 3) else b"\x06\x8b"
    frame = ref.frame(cid[0], cid[1], payload)
    try:
        m = UBXReader.parse(frame, msgmode=mode)
    except Exception as e:  # noqa: BLE001
        return [(f"parse_refuses|{site}|{type(e).__name__}", f"{e} payload={payload.hex()[:80]}")]
    got = attrs(m)
    want_items = expect_parsed_items(items)
    names = [k for k, _ in got]
    if names[: len(header_names)] != header_names:
        return [(f"parse_header_attributes|{site}", f"{names[:len(header_names)]}")]
    gi = got[len(header_names):]
    if [k for k, _ in gi] != [k for k, _ in want_items]:
        missing = [k for k, _ in want_items if k not in dict(gi)]
        return [(f"parse_key_names|{site}|{'missing' if missing else 'extra_or_order'}", f"got {[k for k, _ in gi][:6]} want {[k for k, _ in want_items][:6]}")]
    for (k, v), (_, w) in zip(gi, want_items):
        if not values_equal(v, w):
            return [(f"parse_key_value|{site}", f"{k}: got {v!r} want {w!r}")]
    return []


SET_HDR = ["version", "ram", "bbr", "flash", "action", "reserved0"]
GET_HDR = ["version", "layer", "position"]


def judge_set(cfgdata, layers, txn, site, parse=True):
    """cfgdata: [(key as given, kid, type, value)]"""
    out = []
    try:
        m = UBXMessage.config_set(layers, txn, [(k, v) for k, _, _, v in cfgdata])
        payload = m.payload or b""
    except Exception as e:  # noqa: BLE001
        return "refused", [(f"config_set_refuses_valid_input|{site}|{type(e).__name__}", f"{e}")]
    want = bytes([0 if txn == 0 else 1, layers, txn, 0])
    items = []
    for _, kid, t, v in cfgdata:
        vb = ref_value_bytes(kid, t, v)
        want += kid.to_bytes(4, "little") + vb
        items.append((kid, vb))
    if payload != want:
        out.append((f"config_set_payload|{site}", f"got {payload.hex()[:80]} want {want.hex()[:80]}"))
        return "built", out
    if m.identity != "CFG-VALSET" or m.msgmode != 1:
        out.append((f"config_set_identity|{site}", f"{m.identity} {m.msgmode}"))
    if parse:
        out += check_parse(payload, 1, SET_HDR, items, site)
        out += [(k + "|SETPOLL", d) for k, d in check_parse(payload, 3, SET_HDR, items, site)]
        # the same item list as a CFG-VALGET response (4-byte header version/layer/position)
        out += check_parse(bytes([1, layers & 7, 0, 0]) + payload[4:], 0, GET_HDR, items, site + "|as_valget")
    return "built", out


def judge_keys(fn, keys, a, b, site):
    """config_del(layers, txn, keys) / config_poll(layer, position, keys)."""
    try:
        m = (UBXMessage.config_del if fn == "del" else UBXMessage.config_poll)(a, b, [k for k, _ in keys])
        payload = m.payload or b""
    except Exception as e:  # noqa: BLE001
        return [(f"config_{fn}_refuses_valid_input|{site}|{type(e).__name__}", f"{e}")]
    if fn == "del":
        want = bytes([0 if b == 0 else 1, a, b, 0])
        ident, mode = "CFG-VALDEL", 1
    else:
        want = bytes([0, a]) + b.to_bytes(2, "little")
        ident, mode = "CFG-VALGET", 2
    for _, kid in keys:
        want += kid.to_bytes(4, "little")
    out = []
    if payload != want:
        out.append((f"config_{fn}_payload|{site}", f"got {payload.hex()[:80]} want {want.hex()[:80]}"))
    if m.identity != ident or m.msgmode != mode:
        out.append((f"config_{fn}_identity|{site}", f"{m.identity} {m.msgmode}"))
    try:
        m2 = UBXReader.parse(m.serialize(), msgmode=mode)
        ks = [v for k, v in attrs(m2) if k.startswith("keys")]
        if ks != [kid for _, kid in keys]:
            out.append((f"config_{fn}_reparse_keys|{site}", f"{ks[:5]}"))
    except Exception as e:  # noqa: BLE001
        out.append((f"config_{fn}_reparse_refused|{site}|{type(e).__name__}", str(e)))
    return out


def judge_refusal(what, call, site):
    """call() must raise (anything); returning a message is a violation."""
    try:
        m = call()
    except Exception as e:  # noqa: BLE001
        return "refused", []
    return "accepted", [(f"{what}|{site}", f"returned {m!r:.100}")]


def replay_case(case):
    k = case["kind"]
    if k == "threads":
        return replay_threads(case)
    if k == "set":
        cfg = [(c[0], c[1], c[2], _unj(c[3])) for c in case["cfgdata"]]
        return judge_set(cfg, case["layers"], case["txn"], case["site"], parse=case.get("parse", True))[1]
    if k == "keys":
        return judge_keys(case["fn"], [(a, b) for a, b in case["keys"]], case["a"], case["b"], case["site"])
    if k == "badvalue":
        name, (kid, t) = DB[case["i"]]
        v = _unj(case["v"])
        return judge_refusal("out_of_range_value_encoded", lambda: UBXMessage.config_set(1, 0, [(name, v)]), case["site"])[1]
    if k == "toolong":
        n = case["n"]
        ks = [DB[i % len(DB)] for i in range(n)]
        out = []
        for fn in ("set", "del", "poll"):
            out += too_long(fn, n)[1]
        return out
    if k == "static":
        return static_checks(engine.Acc())
    if k == "unknown":
        out = judge_unknown(case["kid"], case["pos"])[1]
        if case.get("variant"):
            out = [(a.replace("unknown_id|", "unknown_id_sharing_group_item_with_known_key|"), b) for a, b in out]
        return out
    return []


def _j(v):
    if isinstance(v, bytes):
        return {"b": v.hex()}
    if isinstance(v, float):
        return {"f": struct.pack("<d", v).hex()}
    return v


def _unj(v):
    if isinstance(v, dict) and "b" in v:
        return bytes.fromhex(v["b"])
    if isinstance(v, dict) and "f" in v:
        return struct.unpack("<d", bytes.fromhex(v["f"]))[0]
    return v


def too_long(fn, n):
    ks = [DB[(i * 7) % len(DB)] for i in range(n)]
    def call():
        if fn == "set":
            return UBXMessage.config_set(1, 0, [(name, L.nominal(t) if t[0] != "R" else 0.0) for name, (kid, t) in ks])
        if fn == "del":
            return UBXMessage.config_del(1, 0, [name for name, _ in ks])
        return UBXMessage.config_poll(0, 0, [name for name, _ in ks])
    try:
        call()
    except ube.UBXMessageError:
        return "refused", []
    except Exception as e:  # noqa: BLE001
        return "other", [(f"more_than_64_items_wrong_exception|{fn}|{type(e).__name__}", str(e))]
    return "accepted", [(f"more_than_64_items_accepted|{fn}", f"n={n}")]


def reuse_checks():
    """The caller's list is input, not scratch space: the same list object given to a helper twice (and to the
    other helpers in between) is left as it was and gives the same message each time."""
    import copy
    out = []
    ks = [DB[i] for i in sorted(reps_by_type().values())[:5]]
    data = [(n if j % 2 else k, (boundary_values(t, False) or [L.nominal(t)])[-1]) for j, (n, (k, t)) in enumerate(ks)]
    keys = [n if j % 2 else k for j, (n, (k, t)) in enumerate(ks)]
    for fn, arg, call in (("set", data, lambda a: UBXMessage.config_set(1, 0, a)), ("del", keys, lambda a: UBXMessage.config_del(1, 0, a)), ("poll", keys, lambda a: UBXMessage.config_poll(0, 0, a))):
        for form in (list, tuple):
            mine = form(copy.deepcopy(arg))
            before = copy.deepcopy(mine)
            try:
                first = call(mine).serialize()
                again = call(mine).serialize()
            except Exception as e:  # noqa: BLE001
                out.append((f"config_{fn}_refuses_the_list_it_accepted_before|{form.__name__}|{type(e).__name__}", str(e)))
                continue
            if mine != before:
                out.append((f"config_{fn}_modifies_callers_list|{form.__name__}", f"{mine!r:.120}"))
            if first != again:
                out.append((f"config_{fn}_second_call_differs|{form.__name__}", f"{first.hex()[:60]} {again.hex()[:60]}"))
    return out


def static_checks(acc):
    out = reuse_checks()
    for name, (kid, t) in DB:
        acc.transitions += 1
        try:
            if H.cfgname2key(name) != (kid, t):
                out.append((f"cfgname2key_wrong|{name}", ""))
            n2, t2 = H.cfgkey2name(kid)
            if H.cfgname2key(n2)[0] != kid or t2 != t:
                out.append((f"name_id_lookups_disagree|{name}", f"{n2} {t2}"))
        except Exception as e:  # noqa: BLE001
            out.append((f"lookup_raises|{name}|{type(e).__name__}", str(e)))
        if WIDTH.get((kid >> 28) & 7) != L.tsize(t) or kid >> 31:
            out.append((f"storage_width_mismatch|{name}", f"{hex(kid)} {t}"))
    for bad in ("FOO_BAR", "", "cfg_uart1_baudrate"):
        try:
            H.cfgname2key(bad)
            out.append((f"unknown_name_accepted|{bad}", ""))
        except ube.UBXMessageError:
            pass
        except Exception as e:  # noqa: BLE001
            out.append((f"unknown_name_wrong_exception|{type(e).__name__}", bad))
    return out


def sizecode_variants(quick):
    """Undocumented IDs that share group and item with a documented key but carry another size code."""
    out = []
    for n, (name, (kid, t)) in enumerate(DB):
        for size in (1, 2, 3, 4, 5):
            v = (kid & 0x0FFFFFFF) | (size << 28)
            if v not in C.CFGDB_BY_ID:
                out.append(v)
    return out


def unknown_ids():
    ids = []
    for size in (1, 2, 3, 4, 5):
        for g in (0x00, 0x01, 0xFF):
            for i in (0x000, 0x001, 0xFFF):
                kid = (size << 28) | (g << 16) | i
                if kid not in C.CFGDB_BY_ID:
                    ids.append(kid)
    return ids


KNOWN3 = None


def judge_unknown(kid, pos):
    """3-list with the unknown ID at position pos among two known keys; hand-built payload."""
    global KNOWN3
    if KNOWN3 is None:
        KNOWN3 = [DB[5], DB[700]]
    w = WIDTH[(kid >> 28) & 7]
    uval = bytes(range(0xA1, 0xA1 + w))
    items = []
    for name, (k2, t2) in KNOWN3:
        items.append((k2, ref_value_bytes(k2, t2, boundary_values(t2, False)[1] if boundary_values(t2, False) else L.nominal(t2))))
    items.insert(pos, (kid, uval))
    body = b"".join(k.to_bytes(4, "little") + v for k, v in items)
    site = f"unknown_id|size={kid >> 28}"
    out = check_parse(bytes([0, 1, 0, 0]) + body, 1, SET_HDR, items, site)
    out += check_parse(bytes([1, 0, 0, 0]) + body, 0, GET_HDR, items, site + "|as_valget")
    # and through config_set by integer ID
    try:
        m = UBXMessage.config_set(1, 0, [(kid, uval)])
        if (m.payload or b"")[4:] != kid.to_bytes(4, "little") + uval:
            out.append((f"config_set_unknown_id_payload|size={kid >> 28}", (m.payload or b"").hex()))
        n, t = H.cfgkey2name(kid)
        if n != f"CFG_{hex(kid)}" or L.tsize(t) != w:
            out.append((f"cfgkey2name_unknown_id|size={kid >> 28}", f"{n} {t}"))
    except Exception as e:  # noqa: BLE001
        out.append((f"config_set_unknown_id_refused|size={kid >> 28}|{type(e).__name__}", str(e)))
    return "ok", out


def reps_by_type():
    reps = {}
    for i, (name, (kid, t)) in enumerate(DB):
        reps.setdefault(t, i)
    return reps


def thread_ops():
    r = reps_by_type()
    idx = sorted(r.values())
    ks = [DB[i] for i in idx[:6]]
    val = lambda t: (boundary_values(t, False) or [L.nominal(t)])[-1]  # noqa: E731
    A = [(n if j % 2 else k, val(t)) for j, (n, (k, t)) in enumerate(ks[:3])]
    B = [(k if j % 2 else n, val(t)) for j, (n, (k, t)) in enumerate(ks[3:6])]
    return {
        "set_a": lambda: UBXMessage.config_set(1, 0, A).serialize().hex(),
        "set_b": lambda: UBXMessage.config_set(7, 1, B).serialize().hex(),
        "del_a": lambda: UBXMessage.config_del(2, 0, [k for k, _ in A]).serialize().hex(),
        "poll_b": lambda: UBXMessage.config_poll(0, 3, [k for k, _ in B]).serialize().hex(),
    }


def _alone(f):
    try:
        return ("ok", f())
    except Exception as e:  # noqa: BLE001 - the sequential sweeps judge refusals; here only agreement matters
        return ("exc", type(e).__name__, str(e))


def explore_threads(names, first, acc):
    """Two helper calls as real threads under the cooperative scheduler (line events inside pyubx2 are the
    scheduling points), every schedule with at most one preemption: each call must return what it returns alone."""
    from mc import threads
    ops = thread_ops()
    fns = [ops[n] for n in names]
    want = [_alone(f) for f in fns]

    def run(ch):
        return threads.Scheduler(fns, ch, 1).run()

    def on_exec(ch, res):
        acc.evaluations += 1
        for i, (got, w) in enumerate(zip(res, want)):
            if got != w:
                acc.violation(f"helper_result_differs_when_another_helper_runs_concurrently|{names[i]}|with={names[1 - i]}",
                              {"kind": "threads", "program": list(names), "first": first, "choices": list(ch.choices)}, f"{got!r:.120} vs alone {w!r:.120}")

    st = engine.explore(run, bound=1, merge=False, on_exec=on_exec, root_prefix=[first])
    acc.transitions += st["points"]
    acc.outcomes[("threads", "+".join(names), "complete" if not st["capped"] else "capped")] += 1
    return st


def replay_threads(case):
    from mc import threads
    ops = thread_ops()
    fns = [ops[n] for n in case["program"]]
    want = [_alone(f) for f in fns]
    res = threads.Scheduler(fns, engine.Chooser(case["choices"], None), 1).run()
    return [(f"helper_result_differs_when_another_helper_runs_concurrently|{case['program'][i]}|with={case['program'][1 - i]}", f"{g!r:.120}")
            for i, (g, w) in enumerate(zip(res, want)) if g != w]


def eval_block(block, acc):
    kind = block[0]
    quick = block[-1]
    reps = reps_by_type()
    if kind == "keys":
        for i in block[1]:
            name, (kid, t) = DB[i]
            exhaustive2 = reps[t] == i
            vals = boundary_values(t, exhaustive2)
            if quick and len(vals) > 300:
                vals = vals[::257] + vals[-2:]
            for addressing, key in (("name", name), ("id", kid)):
                site = f"type={t}|by_{addressing}"
                for j, v in enumerate(vals):
                    st, out = judge_set([(key, kid, t, v)], 1 + (j % 7), j % 4, site, parse=(j % 16 == 0 or len(vals) < 40))
                    acc.evaluations += 1
                    acc.transitions += 1
                    acc.outcomes[(t, addressing, st)] += 1
                    for k2, detail in out:
                        acc.violation(k2, {"kind": "set", "cfgdata": [[key, kid, t, _j(v)]], "layers": 1 + (j % 7), "txn": j % 4, "site": site}, detail)
                for fn in ("del", "poll"):
                    out = judge_keys(fn, [(key, kid)], 2 if fn == "del" else 0, 0, site)
                    acc.evaluations += 1
                    for k2, detail in out:
                        acc.violation(k2, {"kind": "keys", "fn": fn, "keys": [[key, kid]], "a": 2 if fn == "del" else 0, "b": 0, "site": site}, detail)
            for v in bad_values(t):
                st, out = judge_refusal("out_of_range_value_encoded", lambda: UBXMessage.config_set(1, 0, [(name, v)]), f"type={t}")
                acc.evaluations += 1
                acc.outcomes[(t, "bad", st)] += 1
                for k2, detail in out:
                    acc.violation(k2, {"kind": "badvalue", "i": i, "v": _j(v) if not isinstance(v, (type(None),)) else None, "site": f"type={t}"}, f"{v!r}: {detail}")
            acc.states.add(name)
        if len(acc.samples) < 1:
            acc.sample({"key": name, "id": hex(kid), "type": t, "values": len(vals)})
    elif kind == "lists":
        # list lengths 0..64 from distinct keys, all three helpers; header sweeps
        for n in range(0, 65):
            ks = [DB[(n * 13 + i * 19) % len(DB)] for i in range(n)]
            if len({k[1][0] for k in ks}) != n:
                ks = [DB[i] for i in range(n)]
            cfg = [(name if i % 2 else kid, kid, t, (boundary_values(t, False) or [L.nominal(t)])[-1]) for i, (name, (kid, t)) in enumerate(ks)]
            st, out = judge_set(cfg, 7, 1, f"list_len={'0' if n == 0 else ('64' if n == 64 else 'n')}")
            acc.evaluations += 1
            acc.outcomes[("list", n in (0, 64), st)] += 1
            for k2, detail in out:
                acc.violation(k2, {"kind": "set", "cfgdata": [[a, b, c, _j(d)] for a, b, c, d in cfg], "layers": 7, "txn": 1, "site": f"list_len={'0' if n == 0 else ('64' if n == 64 else 'n')}"}, detail)
            for fn in ("del", "poll"):
                keys = [(name if i % 2 else kid, kid) for i, (name, (kid, t)) in enumerate(ks)]
                out = judge_keys(fn, keys, 2 if fn == "del" else 0, 0 if fn == "del" else 5, "list")
                acc.evaluations += 1
                for k2, detail in out:
                    acc.violation(k2, {"kind": "keys", "fn": fn, "keys": [list(k) for k in keys], "a": 2 if fn == "del" else 0, "b": 0 if fn == "del" else 5, "site": "list"}, detail)
        # lists whose payload is exactly 255..257 / 511..513 / 767..769 bytes (length-field byte boundaries)
        by_w = {}
        for name, (kid, t) in DB:
            by_w.setdefault(L.tsize(t), []).append((name, (kid, t)))
        for target in (255, 256, 257, 511, 512, 513, 767, 768, 769):
            found = None
            for n8 in range(0, 65):
                for n2 in range(0, 65 - n8):
                    for n1 in range(0, 65 - n8 - n2):
                        rest = target - 4 - 12 * n8 - 6 * n2 - 5 * n1
                        if rest >= 0 and rest % 8 == 0 and n8 + n2 + n1 + rest // 8 <= 64:
                            found = (n8, n2, n1, rest // 8)
                            break
                    if found:
                        break
                if found:
                    break
            if not found:
                continue
            n8, n2, n1, n4 = found
            ks = by_w[8][:n8] + by_w[2][:n2] + by_w[1][:n1] + by_w[4][:n4]
            if len({k[1][0] for k in ks}) != len(ks):
                continue
            cfg = [(name if i % 2 else kid, kid, t, (boundary_values(t, False) or [L.nominal(t)])[-1]) for i, (name, (kid, t)) in enumerate(ks)]
            st, out = judge_set(cfg, 1, 0, f"list_payload_len={target}")
            acc.evaluations += 1
            acc.outcomes[("list-len", target, st)] += 1
            for k2, detail in out:
                acc.violation(k2, {"kind": "set", "cfgdata": [[a, b, c, _j(d)] for a, b, c, d in cfg], "layers": 1, "txn": 0, "site": f"list_payload_len={target}"}, detail)
        # lists that name the same key more than once (same addressing form or mixed): still one item per entry, in order
        ridx = sorted(reps.values())
        for i1 in ridx:
            for i2 in ridx[:4]:
                if i1 == i2:
                    continue
                (n1, (k1, t1)), (n2, (k2, t2)) = DB[i1], DB[i2]
                v1 = boundary_values(t1, False) or [L.nominal(t1)]
                v2 = boundary_values(t2, False) or [L.nominal(t2)]
                a, c, b = v1[0], v1[-1], v2[-1]
                pats = {
                    "name_twice": [(n1, k1, t1, a), (n2, k2, t2, b), (n1, k1, t1, c)],
                    "id_twice": [(k1, k1, t1, a), (k2, k2, t2, b), (k1, k1, t1, c)],
                    "name_and_id": [(n1, k1, t1, a), (k1, k1, t1, c)],
                    "adjacent_same_value": [(n1, k1, t1, a), (n1, k1, t1, a)],
                    "64_items_2_keys": [(n1, k1, t1, a) if j % 2 else (n2, k2, t2, b) for j in range(64)],
                }
                for pn, cfg in pats.items():
                    st, out = judge_set(cfg, 1, 0, f"repeated_key|{pn}", parse=False)
                    acc.evaluations += 1
                    acc.outcomes[("repeated", pn, st)] += 1
                    for k2_, detail in out:
                        acc.violation(k2_, {"kind": "set", "cfgdata": [[a_, b_, c_, _j(d_)] for a_, b_, c_, d_ in cfg], "layers": 1, "txn": 0, "site": f"repeated_key|{pn}", "parse": False}, detail)
                    for fn in ("del", "poll"):
                        keys = [(x[0], x[1]) for x in cfg]
                        out = judge_keys(fn, keys, 2 if fn == "del" else 0, 0, f"repeated_key|{pn}")
                        acc.evaluations += 1
                        for k2_, detail in out:
                            acc.violation(k2_, {"kind": "keys", "fn": fn, "keys": [list(k) for k in keys], "a": 2 if fn == "del" else 0, "b": 0, "site": f"repeated_key|{pn}"}, detail)
        for n in (65, 66, 100):
            for fn in ("set", "del", "poll"):
                st, out = too_long(fn, n)
                acc.evaluations += 1
                acc.outcomes[("toolong", fn, st)] += 1
                for k2, detail in out:
                    acc.violation(k2, {"kind": "toolong", "n": n}, detail)
        name, (kid, t) = DB[reps["U001"]]
        for layers in range(256):
            for txn in (range(256) if layers < 8 else (0, 1, 2, 3, 255)):
                st, out = judge_set([(name, kid, t, 1)], layers, txn, "header", parse=(txn < 4 and layers < 8))
                acc.evaluations += 1
                for k2, detail in out:
                    acc.violation(k2, {"kind": "set", "cfgdata": [[name, kid, t, 1]], "layers": layers, "txn": txn, "site": "header"}, detail)
        for layers in range(256):
            for txn in (0, 1, 2, 3, 255):
                out = judge_keys("del", [(name, kid)], layers, txn, "header")
                acc.evaluations += 1
                for k2, detail in out:
                    acc.violation(k2, {"kind": "keys", "fn": "del", "keys": [[name, kid]], "a": layers, "b": txn, "site": "header"}, detail)
        for bad in ((256, 0), (-1, 0), (0, 256), (0, -1)):
            st, out = judge_refusal("out_of_range_header_accepted", lambda: UBXMessage.config_del(bad[0], bad[1], [name]), "del")
            acc.evaluations += 1
            for k2, detail in out:
                acc.violation(k2, {"kind": "static"}, detail)
        for layer in range(256):
            for position in (0, 1, 255, 256, 65535):
                out = judge_keys("poll", [(name, kid)], layer, position, "header")
                acc.evaluations += 1
                for k2, detail in out:
                    acc.violation(k2, {"kind": "keys", "fn": "poll", "keys": [[name, kid]], "a": layer, "b": position, "site": "header"}, detail)
        for bad in ((256, 0), (-1, 0), (0, 65536), (0, -1)):
            st, out = judge_refusal("out_of_range_header_accepted", lambda: UBXMessage.config_poll(bad[0], bad[1], [name]), "poll")
            acc.evaluations += 1
            for k2, detail in out:
                acc.violation(k2, {"kind": "static"}, detail)
    elif kind == "threads":
        explore_threads(block[1], block[2], acc)
    elif kind == "tuples":
        idx = sorted(reps.values())
        first = block[1]
        others = idx
        for second in others:
            for third in ([None] + (others if not quick or second % 3 == 0 else [])):
                seq = [first, second] + ([third] if third is not None else [])
                cfg = []
                for i in seq:
                    name, (kid, t) = DB[i]
                    cfg.append((name, kid, t, (boundary_values(t, False) or [L.nominal(t)])[1 if len(boundary_values(t, False)) > 1 else 0]))
                if len({c[1] for c in cfg}) != len(cfg):
                    continue
                st, out = judge_set(cfg, 1, 0, "tuple")
                acc.evaluations += 1
                acc.transitions += len(cfg)
                acc.outcomes[("tuple", len(cfg), st)] += 1
                for k2, detail in out:
                    acc.violation(k2, {"kind": "set", "cfgdata": [[a, b, c, _j(d)] for a, b, c, d in cfg], "layers": 1, "txn": 0, "site": "tuple"}, detail)
    elif kind == "static":
        for k2, detail in static_checks(acc):
            acc.violation(k2, {"kind": "static"}, detail)
        acc.evaluations += len(DB)
        for kid in sizecode_variants(quick):
            st, out = judge_unknown(kid, 1)
            acc.evaluations += 1
            acc.outcomes[("unknown-sizecode-variant", kid >> 28, 1)] += 1
            for k2, detail in out:
                acc.violation(k2.replace("unknown_id|", "unknown_id_sharing_group_item_with_known_key|"), {"kind": "unknown", "kid": kid, "pos": 1, "variant": True}, detail)
        for kid in unknown_ids():
            for pos in (0, 1, 2):
                st, out = judge_unknown(kid, pos)
                acc.evaluations += 1
                acc.outcomes[("unknown", kid >> 28, pos)] += 1
                for k2, detail in out:
                    acc.violation(k2, {"kind": "unknown", "kid": kid, "pos": pos}, detail)


def run_tier(tier, t0):
    q = tier == "quick"
    idx = list(range(len(DB)))
    blocks = [("keys", idx[i::64], q) for i in range(64)]
    blocks += [("lists", q), ("static", q)]
    blocks += [("tuples", i, q) for i in sorted(reps_by_type().values())]
    import itertools
    for a, b in itertools.combinations_with_replacement(("set_a", "set_b", "del_a", "poll_b"), 2):
        for first in (0, 1):
            blocks.append(("threads", [a, b], first))
    acc = engine.sweep(blocks, eval_block)
    engine.finish(
        PROP, tier, acc, t0, replay_case,
        rule=(
            f"all {len(DB)} database keys x by name / by ID x values (all 256 for 1-byte types; one key per 2-byte type over "
            + ("a 1/257 stride" if q else "all 65,536 values")
            + "; boundary sets otherwise; out-of-range/wrong-type values must be refused) through config_set, each key through config_del/config_poll; lists of every length 0..64 of distinct keys and 65/66/100; "
            "all ordered pairs" + (" and a third of the triples" if q else " and triples") + " over one key per type; layers 0..255 x transaction; position boundary values; unknown IDs for size codes 1..5 in each position of a 3-list, and every documented key's group/item under each other size code; "
            "produced payloads compared with the reference codec and re-parsed as CFG-VALSET and as CFG-VALGET response. states = keys covered; distinct_nontrivial = (type, addressing, verdict) classes"
        ),
        assumptions=["storage widths by size code {1:1,2:1,3:2,4:4,5:8}; undocumented IDs with bit 31 clear (O8); aliases resolve to the first database name (O7)", "out-of-range values may be refused by any exception (the helpers are static, outside the constructor's translation)", "lists naming a key more than once are covered (one item per entry, in order)", "the same list / tuple object given to each helper twice: accepted both times, left unmodified, same message", "thread ring: all 10 unordered pairs of 4 helper calls (config_set x2, config_del, config_poll) as two real threads under the cooperative line-event scheduler, every schedule with <= 1 preemption; each call must return what it returns alone"],
        vacuity=[(f"all {len(DB)} keys covered", len(acc.states) == len(DB)), ("refusals of bad values observed", any(k[1] == "bad" and k[2] == "refused" for k in acc.outcomes))],
        extra_cov={"keys": len(DB), "unknown_ids": len(unknown_ids())},
    )


if __name__ == "__main__":
    engine.main(PROP, run_tier, replay_case, eval_block)
