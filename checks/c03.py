"""C03 - messages built from keyword attributes encode exactly the values supplied.

For every keyword-constructible (mode, definition) and both bitfield views:
 (i)   a single trivial keyword yields the all-zero nominal payload;
 (ii)  parse-then-rebuild one field at a time: for every distinct (type, scale) pair every raw
       value of 1- and 2-byte fields (lattice + window for wider ones) through the smallest
       definition containing the pair; every other field with its boundary set;
 (iii) whole-message rebuild of distinct-byte payloads with group counts 0..3;
 (iv)  every subset of <= 2 attributes (full power set for small definitions) supplied with
       non-zero values, the rest omitted;
 (v)   counted groups with 0..3 members supplied by suffix.
Oracle: reference layout + codec applied to the produced payload (mc/refmodel/layout.py).
"""
import itertools
import math
from fractions import Fraction

from mc import boot  # noqa: F401
from mc import catalogue as C, construct as K, engine
from mc.refmodel import core as ref, layout as L
from mc.streams import UBX_ERRORS

from pyubx2 import UBXMessage, UBXReader

PROP = "C03"


def bg(i):
    return (7 * i + 1) % 251


def scale_str(s):
    m, e = math.frexp(s)
    return f"2**{e - 1}" if m == 0.5 else repr(s)


def reserved_mask(fields, n):
    """Bytes mask clearing reserved / unnamed bits of bitfields (O5)."""
    mask = bytearray(b"\xff" * n)
    by_off = {}
    for f in fields:
        if f.kind == "flag":
            by_off.setdefault((f.off, f.size), []).append(f)
    for (off, size), fs in by_off.items():
        keep = 0
        for f in fs:
            if f.exposed:
                keep |= ((1 << f.bits) - 1) << f.bitoff
        mask[off : off + size] = keep.to_bytes(size, "little")
    return bytes(mask)


def apply_mask(b, m):
    return bytes(x & y for x, y in zip(b, m))


def reported_kwargs(e, payload, pbf):
    """Attribute values the parser reports for payload, as keyword arguments (HP pairs per O6)."""
    frame = ref.frame(e.clsid[0], e.clsid[1], payload)
    msg = UBXReader.parse(frame, msgmode=e.mode, parsebitfield=pbf)
    kw = {k: v for k, v in msg.__dict__.items() if not k.startswith("_")}
    w, key = C.walk_frame(e.mode, e.clsid, payload, pbf)
    hp = [f for f in w.fields if f.name.startswith("_HP")]
    for f in hp:
        base = next(b for b in w.fields if b.name == f.name[3:])
        braw = L.dec(payload[base.off : base.off + base.size], base.typ)
        hraw = L.dec(payload[f.off : f.off + f.size], f.typ)
        kw[base.name] = float(Fraction(braw) * Fraction(base.scale)) if base.scale != 1 else braw
        kw[f.name] = float(Fraction(hraw) * Fraction(f.scale)) if f.scale != 1 else hraw
    return kw, w


def first_diff_field(w, a, b):
    n = min(len(a), len(b))
    i = next((i for i in range(n) if a[i] != b[i]), n)
    for f in w.fields:
        if f.off <= i < f.off + max(f.size, 1):
            return f
    return None


def judge_rebuild(e, payload, pbf):
    """parse payload, feed the reported values back, compare payloads (reserved bits aside)."""
    try:
        kw, w = reported_kwargs(e, payload, pbf)
    except Exception as ex:  # noqa: BLE001  (refusals of conforming payloads are C02's)
        return "parse-refused", []
    if w.short or w.off != len(payload):
        return "nonconforming", []
    label = e.label
    pb = f"pbf={int(bool(pbf))}"
    try:
        if kw:
            m2 = UBXMessage(e.clsid[0:1], e.clsid[1:2], e.mode, parsebitfield=pbf, **kw)
        else:
            m2 = UBXMessage(e.clsid[0:1], e.clsid[1:2], e.mode, parsebitfield=pbf)
        p2 = m2.payload or b""
    except Exception as ex:  # noqa: BLE001
        # a scaled field whose reported value no longer maps back into the field's range?
        for f in w.fields:
            if f.kind == "plain" and f.scale != 1 and f.name in kw and f.typ[0] in "UEIL" and isinstance(kw[f.name], (int, float)):
                lo, hi = L.int_range(f.typ)
                back = Fraction(kw[f.name]) / Fraction(f.scale)
                if not lo - Fraction(1, 2) <= back <= hi + Fraction(1, 2):
                    return "viol", [(f"scaled_field_wrong_value|{f.typ}|scale={scale_str(f.scale)}", f"{f.name}: reported {kw[f.name]!r} is refused ({ex}) payload={payload.hex()[:80]}")]
        return "viol", [(f"reported_values_refused|{label}|{pb}|{type(ex).__name__}", f"{ex} payload={payload.hex()[:80]}")]
    mask = reserved_mask(w.fields, len(payload)) if pbf else b"\xff" * len(payload)
    if len(p2) != len(payload) or apply_mask(p2, mask) != apply_mask(payload, mask):
        f = first_diff_field(w, apply_mask(p2, mask) if len(p2) == len(payload) else p2, apply_mask(payload, mask))
        if f is not None and f.scale != 1 and f.typ[0] in "UEIL" and len(p2) == len(payload):
            signed = f.typ[0] == "I"
            rin = int.from_bytes(payload[f.off : f.off + f.size], "little", signed=signed)
            rout = int.from_bytes(p2[f.off : f.off + f.size], "little", signed=signed)
            cls = "truncated_by_one" if abs(rin - rout) == 1 and abs(rout) < abs(rin) else "wrong_value"
            key = f"scaled_field_{cls}|{f.typ}|scale={scale_str(f.scale)}"
        elif f is not None and f.scale != 1:
            key = f"scaled_field_wrong_value|{f.typ}|scale={scale_str(f.scale)}"
        elif f is not None:
            key = f"field_not_regenerated|{label}|{pb}|{f.base}"
        else:
            key = f"payload_length_differs|{label}|{pb}"
        return "viol", [(key, f"in={payload.hex()[:96]} out={p2.hex()[:96]} field={f}")]
    return "ok", []


def judge_build(e, kw, pbf, what):
    """Keyword construction against the reference encoder."""
    label = e.label
    pb = f"pbf={int(bool(pbf))}"
    full = dict(K.route_kwargs(e) or {})
    full.update(kw)
    full = K.trivial_kwarg(e, full)
    try:
        want, fields = L.encode(e.pdict, full, pbf, L.special_of(e.mode, e.clsid))
    except L.Unfit:
        return "ref-unfit", []
    try:
        m = UBXMessage(e.clsid[0:1], e.clsid[1:2], e.mode, parsebitfield=pbf, **full)
        got = m.payload or b""
    except Exception as ex:  # noqa: BLE001
        return "viol", [(f"in_range_values_refused|{label}|{pb}|{what}|{type(ex).__name__}", f"{ex} kwargs={str(full)[:120]}")]
    if got != want:
        f = None
        n = min(len(got), len(want))
        i = next((i for i in range(n) if got[i] != want[i]), n)
        for x in fields:
            if x.off <= i < x.off + max(x.size, 1):
                f = x
                break
        return "viol", [(f"payload_differs_from_reference|{label}|{pb}|{what}|{f.base if f else 'length'}", f"kwargs={str(full)[:120]} got={got.hex()[:80]} want={want.hex()[:80]}")]
    return "ok", []


# --------------------------------------------------------------------------------------
def raw_domain(t, quick, exhaustive):
    k, n = t[0], L.tsize(t)
    if k not in "UEIL":
        return None
    lo, hi = L.int_range(t)
    if exhaustive and (n == 1 or (n == 2 and not quick)):
        return range(lo, hi + 1)
    vs = {lo, lo + 1, 0, 1, 2, hi - 1, hi, hi // 2, hi // 2 + 1}
    if exhaustive:
        win = 1 << (10 if quick else 16)
        vs |= set(range(max(lo, -win), min(hi, win) + 1))
        for kbit in range(8 * n):
            for d in (-1, 0, 1):
                for sgn in (1, -1):
                    vs.add(sgn * ((1 << kbit) + d))
        if n == 2 and quick:
            vs |= set(range(lo, hi + 1, 7))
    return sorted(v for v in vs if lo <= v <= hi)


def pair_index(ents):
    """{(type, scale): (entry index, field name)} - smallest definition containing each pair."""
    best = {}
    for i, e in enumerate(ents):
        if not e.routed or C.invalid_types(e.pdict) or K.route_kwargs(e) is None:
            continue
        pl = C.build_payload(e, lambda x: 1, 0)
        if pl is None:
            continue
        w, key = C.walk_frame(e.mode, e.clsid, pl, True)
        if w is None or key != e.key or w.short or w.off != len(pl):
            continue
        for f in w.fields:
            if f.kind == "plain" and f.typ != "CH" and f.typ[0] in "UEIL" and not f.name.startswith("_HP"):
                if any(h.name == "_HP" + f.name for h in w.fields):
                    continue
                if f.off in e.pins or f.base in C._size_fields(e.pdict):
                    continue
                k = (f.typ, f.scale)
                if k not in best or len(pl) < best[k][2]:
                    best[k] = (i, f.name, len(pl))
    return best


def run_pair(e, fname, quick, acc):
    base = bytearray(C.build_payload(e, lambda x: 1, 0))
    w, _ = C.walk_frame(e.mode, e.clsid, bytes(base), True)
    f = next(x for x in w.fields if x.name == fname)
    signed = f.typ[0] == "I"
    for r in raw_domain(f.typ, quick, True):
        pl = bytes(base[: f.off]) + r.to_bytes(f.size, "little", signed=signed) + bytes(base[f.off + f.size :])
        st, out = judge_rebuild(e, pl, True)
        acc.evaluations += 1
        acc.transitions += 2
        acc.outcomes[("pair", f.typ, scale_str(f.scale), st)] += 1
        for key, detail in out:
            acc.violation(key, {"kind": "rebuild", "entry": e.label, "payload": pl.hex(), "pbf": 1}, detail)
    acc.states.add((f.typ, scale_str(f.scale)))


def nonzero_value(f):
    """A non-zero in-range value for field f (as the user would pass it)."""
    if f.kind == "flag":
        return 1
    t = f.typ
    if t == "CH":
        return "x"
    k, n = t[0], L.tsize(t)
    if k in "UEIL":
        if f.scale != 1:
            return float(Fraction(3) * Fraction(f.scale))
        return 3
    if k == "R":
        return 1.5
    if k in "XC":
        return bytes([0x41] * n)
    if k == "A":
        return [5] * n
    return None


def entry_fields(e, pbf, count):
    kw = dict(K.route_kwargs(e) or {})
    kw.update({n: count for n in C._size_fields(e.pdict)})
    payload, fields = L.encode(e.pdict, K.trivial_kwarg(e, kw), pbf, L.special_of(e.mode, e.clsid))
    return kw, fields


def run_entry(e, quick, acc):
    label = e.label
    pins_sizes = set(C._size_fields(e.pdict))
    for pbf in (True, False):
        # (i) trivial keyword -> all-zero payload (apart from pinned discriminators)
        st, out = judge_build(e, {}, pbf, "trivial")
        acc.evaluations += 1
        acc.outcomes[("trivial", st)] += 1
        for key, detail in out:
            acc.violation(key, {"kind": "build", "entry": label, "kw": {}, "pbf": pbf, "what": "trivial"}, detail)
        # (iii) whole-message rebuild, distinct bytes, counts 0..3
        for c in (0, 1, 2, 3):
            pl = C.build_payload(e, lambda x: c, 0, bg, maxlen=8192)
            if pl is None:
                continue
            fills = [("bg", pl)]
            if "CH" not in e.pdict.values():  # CH ranges over valid UTF-8 only (O14)
                fills.append(("ff", C.build_payload(e, lambda x: c, 0, lambda i: 0xFF, maxlen=8192)))
            for fillname, pl2 in fills:
                st, out = judge_rebuild(e, pl2, pbf)
                acc.evaluations += 1
                acc.transitions += 2
                acc.outcomes[("whole", pbf, st)] += 1
                for key, detail in out:
                    acc.violation(key, {"kind": "rebuild", "entry": label, "payload": pl2.hex(), "pbf": int(pbf)}, detail)
            if not pins_sizes:
                break
        # variable-length text: valid UTF-8 with 2-, 3- and 4-byte characters (the parser reports str; feeding it back must regenerate the bytes)
        if "CH" in e.pdict.values():
            pl0 = C.build_payload(e, lambda x: 1, 0, bg)
            if pl0 is not None:
                for txt in ("Z\u00fcrich 47\u00b0", "\u00e9", "a\u2032b", "\U0001F600 ok", "\u00b5\u00b5\u00b5", "plain"):
                    pl2 = pl0[: len(pl0) - C.CH_LEN] + txt.encode("utf-8")
                    st, out = judge_rebuild(e, pl2, pbf)
                    acc.evaluations += 1
                    acc.transitions += 2
                    acc.outcomes[("text", pbf, st)] += 1
                    for key, detail in out:
                        acc.violation(key + "|non_ascii_text", {"kind": "rebuild", "entry": label, "payload": pl2.hex(), "pbf": int(pbf), "suffix": "|non_ascii_text"}, detail)
        # (ii') every field with its boundary raw values, others zero
        base = C.build_payload(e, lambda x: 1, 0)
        if base is not None:
            w, key = C.walk_frame(e.mode, e.clsid, base, pbf)
            if w is not None and key == e.key and not w.short and w.off == len(base):
                last = {}
                for f in w.fields:
                    last[f.base] = f.path
                for f in w.fields:
                    if f.kind != "plain" or f.typ == "CH" or f.off in e.pins or f.base in pins_sizes:
                        continue
                    if f.path and max(f.path) > 2 and f.path != last[f.base]:
                        continue  # long fixed groups: first two and last member
                    dom = raw_domain(f.typ, quick, False)
                    if dom is None and f.typ[0] == "R":
                        import struct as _st
                        fmt = "<f" if f.size == 4 else "<d"
                        vals = [0.0, -0.0, 1.0, -1.5, 0.1, float("inf"), float("-inf"), 1.5e-45 if f.size == 4 else 5e-324, 3.4028234e38 if f.size == 4 else 1.7976931348623157e308]
                        raws = [_st.pack(fmt, v) for v in vals]
                    elif dom is None:
                        raws = [b"\xff" * f.size, bytes([0x41]) * f.size]
                        if f.size >= 2 and f.typ[0] in "CX":
                            raws += [b"A" + b" " * (f.size - 1), b" " * f.size, b"A" * (f.size - 1) + b"\x00", b" " + b"A" * (f.size - 1), b"\x00" + b"A" * (f.size - 1)]
                    else:
                        raws = [r.to_bytes(f.size, "little", signed=f.typ[0] == "I") for r in dom]
                    for rb in raws:
                        pl = base[: f.off] + rb + base[f.off + f.size :]
                        st, out = judge_rebuild(e, pl, pbf)
                        acc.evaluations += 1
                        acc.transitions += 2
                        acc.outcomes[("field", pbf, st)] += 1
                        for key2, detail in out:
                            acc.violation(key2, {"kind": "rebuild", "entry": label, "payload": pl.hex(), "pbf": int(pbf)}, detail)
        # (iv) subsets of attributes, (v) group members
        for count in ((0, 1, 2, 3) if pins_sizes else (0,)):
            try:
                kw0, fields = entry_fields(e, pbf, count)
            except L.Unfit:
                continue
            cand = [f for f in fields if f.name not in kw0 and not f.name.startswith("_HP") and f.base not in pins_sizes and f.off not in e.pins]
            cand = [f for f in cand if not (f.kind == "plain" and any(h.name == "_HP" + f.name for h in fields))]
            cand = [f for f in cand if not (f.path and max(f.path) > 3)]
            names = []
            for f in cand:
                if f.name not in names:
                    names.append(f.name)
            byname = {f.name: f for f in cand}
            if count == 0 or count == 3:
                # (v) all members supplied at once
                kw = dict(kw0)
                kw.update({n: nonzero_value(byname[n]) for n in names})
                st, out = judge_build(e, kw, pbf, f"all_attributes_count={count}")
                acc.evaluations += 1
                acc.outcomes[("all", pbf, st)] += 1
                for key, detail in out:
                    acc.violation(key, {"kind": "build", "entry": label, "kw": _jkw(kw), "pbf": pbf, "what": f"all_attributes_count={count}"}, detail)
            if count > 1 and quick:
                continue
            subsets = []
            if len(names) <= 8:
                for r in range(1, len(names) + 1):
                    subsets += list(itertools.combinations(names, r))
            else:
                subsets = [(n,) for n in names]
                pairs = list(itertools.combinations(names, 2))
                subsets += pairs if (not quick or len(pairs) <= 300) else pairs[:: max(1, len(pairs) // 300)]
            for sub in subsets:
                kw = dict(kw0)
                kw.update({n: nonzero_value(byname[n]) for n in sub})
                st, out = judge_build(e, kw, pbf, f"subset{min(len(sub), 3)}")
                acc.evaluations += 1
                acc.transitions += 1
                acc.outcomes[("subset", min(len(sub), 3), st)] += 1
                for key, detail in out:
                    acc.violation(key, {"kind": "build", "entry": label, "kw": _jkw(kw), "pbf": pbf, "what": f"subset{min(len(sub), 3)}"}, detail)
    acc.extra["entries"] += 1


def _jkw(kw):
    return {k: ({"b": v.hex()} if isinstance(v, bytes) else v) for k, v in kw.items()}


def _unjkw(kw):
    return {k: (bytes.fromhex(v["b"]) if isinstance(v, dict) and "b" in v else v) for k, v in kw.items()}


def replay_case(case):
    e = next(x for x in C.entries() if x.label == case["entry"])
    if case["kind"] == "rebuild":
        return [(k + case.get("suffix", ""), d) for k, d in judge_rebuild(e, bytes.fromhex(case["payload"]), bool(case["pbf"]))[1]]
    return judge_build(e, _unjkw(case["kw"]), case["pbf"], case["what"])[1]


def eval_block(block, acc):
    ents = C.entries()
    kind = block[0]
    quick = block[-1]
    if kind == "alias":
        # omitted array attributes are reported as lists: a caller may edit such a list; the next construction that
        # omits the attribute must still encode zeros
        for e in ents:
            if not e.routed or C.invalid_types(e.pdict) or K.route_kwargs(e) is None or "A2" not in repr(e.pdict):
                continue
            for pbf in (True, False):
                kw = {n: 1 for n in C._size_fields(e.pdict)}
                try:
                    m1 = K.build_kw(e, kw, pbf)
                    for k, v in m1.__dict__.items():
                        if isinstance(v, list) and v:
                            v[0] = (v[0] + 5) % 256
                            v[-1] = 9
                except Exception:  # noqa: BLE001
                    pass
                st, out = judge_build(e, kw, pbf, "omitted_after_caller_edited_a_reported_list")
                acc.evaluations += 1
                acc.outcomes[("alias", st)] += 1
                for key, detail in out:
                    acc.violation(key, {"kind": "build", "entry": e.label, "kw": _jkw(kw), "pbf": pbf, "what": "omitted_after_caller_edited_a_reported_list"}, detail)
        return
    if kind == "afterfail":
        # ~1,000 operations that fail inside a group, then every keyword-constructible definition is rebuilt
        # from its reported values in the same process
        from mc import failops
        acc.extra["failing_operations"] += failops.run_failing_operations()
        for e in ents:
            if not e.routed or C.invalid_types(e.pdict) or K.route_kwargs(e) is None:
                continue
            pl = C.build_payload(e, lambda x: 2, 0, bg)
            if pl is None:
                continue
            for pbf in (True, False):
                st, out = judge_rebuild(e, pl, pbf)
                acc.evaluations += 1
                acc.outcomes[("afterfail", st)] += 1
                for key, detail in out:
                    acc.violation(key, {"kind": "rebuild", "entry": e.label, "payload": pl.hex(), "pbf": int(pbf)}, detail)
        return
    if kind == "pair":
        e = ents[block[1]]
        run_pair(e, block[2], quick, acc)
        if len(acc.samples) < 1:
            acc.sample({"plan": "(type,scale) exhaustive", "entry": e.label, "field": block[2]})
    else:
        for i in block[1]:
            e = ents[i]
            if not e.routed or C.invalid_types(e.pdict):
                continue
            if K.route_kwargs(e) is None:
                acc.note("payload_only_entries", e.label)
                continue
            run_entry(e, quick, acc)


def run_tier(tier, t0):
    q = tier == "quick"
    ents = C.entries()
    pairs = pair_index(ents)
    blocks = [("pair", i, fname, q) for (t, s), (i, fname, _) in sorted(pairs.items(), key=lambda kv: (kv[0][0], str(kv[0][1])))]
    idx = list(range(len(ents)))
    blocks += [("entries", idx[i::96], q) for i in range(96)]
    blocks += [("afterfail", q), ("alias", q)]
    acc = engine.sweep(blocks, eval_block)
    nkw = sum(1 for e in ents if e.routed and not C.invalid_types(e.pdict) and K.route_kwargs(e) is not None)
    engine.finish(
        PROP, tier, acc, t0, replay_case,
        rule=(
            f"{len(pairs)} distinct (type, scale) pairs, each through its smallest definition: all raw values of 1-byte fields, "
            + ("2-byte fields on boundary + window [-1024,1024] + stride 7, wider on boundary + window + 2^k(+-1)" if q else "all 65,536 values of 2-byte fields, wider on boundary + window [-65536,65536] + 2^k(+-1)")
            + f"; {nkw} keyword-constructible definitions x 2 views x {{trivial keyword; whole-message rebuild of distinct-byte and all-ff payloads with counts 0..3; every field x boundary raws; "
            "subsets of <=2 attributes (power set when <=8 attributes); all attributes with counts 0 and 3}. states = (type, scale) pairs exhausted; "
            "distinct_nontrivial = (plan, class, verdict) outcome classes"
        ),
        assumptions=[
            "variable-by-size groups get zero members under keyword construction (O16); merged _HP attributes are fed back as their two components (O6); reserved/unnamed bits are masked (O5)",
            "payload-only definitions (pinned list in mc/construct.py) are not keyword-constructible by documented design",
        ],
        vacuity=[
            (f"all {nkw} keyword-constructible definitions exercised", acc.extra["entries"] == nkw),
            ("scaled pairs exercised", any(k[0] == "pair" and k[2] != "1" for k in acc.outcomes)),
        ],
        extra_cov={"pairs": [f"{t}@{scale_str(s)}" for (t, s) in sorted(pairs, key=lambda k: (k[0], str(k[1])))]},
    )


if __name__ == "__main__":
    engine.main(PROP, run_tier, replay_case, eval_block)
