"""C06 - the reader delivers every well-formed frame, in order, typed by protocol.

Exhaustive over token sequences (frames of the three protocols, accepted and rejected, with
noise tokens that contain no frame-start byte) up to a depth; the expected output of every
sequence is known by construction from each token's standalone verdict, which is computed by
calling the protocol's own parser with the reader's options (DESIGN §5 C06, O4).
"""
import itertools

from mc import boot  # noqa: F401
from mc import engine, streams
from mc.streams import TOKENS, run_reader, item_sigs, verdict_table

PROP = "C06"
ALPHABET = streams.FRAME_TOKENS + streams.NOISE_TOKENS


def product_configs():
    return [
        dict(msgmode=m, validate=v, parsebitfield=p, quitonerror=q, handler=bool(q))
        for m, v, p, q in itertools.product(range(4), (0, 1), (0, 1), (0, 1))
    ]


DEFAULTS = [dict(quitonerror=1, handler=True), dict(quitonerror=0)]
_VT = {}


def vt(cfg):
    k = (cfg.get("msgmode", 0), cfg.get("validate", 1), cfg.get("parsebitfield", 1))
    if k not in _VT:
        _VT[k] = verdict_table(cfg)
    return _VT[k]


def expected_items(seq, cfg):
    table = vt(cfg)
    out = []
    for t in seq:
        if TOKENS[t][1] == "frame" and table[t][0] == "ok":
            out.append((TOKENS[t][2], table[t][1]))
    return out


def judge(seq, cfg, kind=None):
    data = streams.seq_bytes(seq)
    r = run_reader(data, cfg, use_iter=True, stream=streams.STREAM_KINDS[kind](data) if kind else None)  # the statement speaks of *iterating* the reader
    exp = expected_items(seq, cfg)
    got = item_sigs(r)
    out = []
    if r.raised is not None:
        out.append((f"raised|{type(r.raised).__name__}", str(r.raised)))
    if r.horizon:
        out.append(("no_termination", "horizon exceeded"))
    if got != exp:
        # locate first difference, name it by the token expected there and its predecessor
        i = 0
        while i < len(got) and i < len(exp) and got[i] == exp[i]:
            i += 1
        frames = [t for t in seq if TOKENS[t][1] == "frame" and vt(cfg)[t][0] == "ok"]
        if i < len(exp):
            tok = frames[i]
            idx = [j for j, t in enumerate(seq) if t == tok][0]
            # predecessor of the i-th expected frame in the sequence
            cnt = -1
            for j, t in enumerate(seq):
                if TOKENS[t][1] == "frame" and vt(cfg)[t][0] == "ok":
                    cnt += 1
                    if cnt == i:
                        idx = j
                        break
            prev = seq[idx - 1] if idx > 0 else "start"
            kind = "wrong_item" if i < len(got) else "missing_frame"
            out.append((f"{kind}|{tok}|after={prev}", f"expected {exp[i][0].hex()} got {got[i][0].hex() if i < len(got) else None}"))
        else:
            out.append((f"extra_item|class={streams.raw_class(got[i][0])}", f"unexpected item {got[i][0].hex()}"))
    elif r.raised is None and not r.horizon and r.tell != len(data):
        out.append(("stream_not_consumed", f"tell={r.tell} len={len(data)}"))
    return out, r, exp


import socket  # noqa: E402


ChunkSocket = streams.ChunkSocket


def judge_socket(seq, cfg, chunk, bufsize):
    """The same by-construction expectation with the frames arriving through a socket."""
    from pyubx2 import UBXReader
    data = streams.seq_bytes(seq)
    exp = expected_items(seq, cfg)
    got, out = [], []
    try:
        rd = UBXReader(ChunkSocket(data, chunk), bufsize=bufsize, **streams.cfg_kwargs(cfg, (lambda e: None) if cfg.get("handler") else None))
        for raw, parsed in rd:
            got.append((raw, streams.sig(parsed)))
            if len(got) > len(data) + 4:
                break
    except streams.Horizon:
        out.append(("no_termination|socket", ""))
    except Exception as e:  # noqa: BLE001
        out.append((f"raised|{type(e).__name__}|socket", str(e)))
    if not out and got != exp:
        out.append((f"socket_items_differ|{'missing' if len(got) < len(exp) else 'other'}", f"chunk={chunk} bufsize={bufsize} got {len(got)} want {len(exp)}"))
    return out


def opposite(cfg):
    return dict(msgmode=3 - cfg["msgmode"], validate=1 - cfg["validate"], parsebitfield=1 - cfg["parsebitfield"], quitonerror=cfg["quitonerror"], handler=cfg["handler"])


def judge_live(seq, cfgs):
    """Several readers with different options alive at once (all constructed, then drained round-robin):
    each must deliver what its own options prescribe."""
    data = streams.seq_bytes(seq)
    out = []
    for cfg, r in zip(cfgs, streams.run_group(data, cfgs, use_iter=True)):
        exp = expected_items(seq, cfg)
        if r.raised is not None:
            out.append((f"raised|{type(r.raised).__name__}|live_readers", str(r.raised)))
        elif item_sigs(r) != exp:
            out.append(("reader_influenced_by_another_live_reader", f"cfg={cfg} got {len(r.items)} items, want {len(exp)}"))
    return out


def replay_case(case):
    if case.get("kind"):
        return [(k + f"|stream={case['kind']}", d) for k, d in judge(tuple(case["tokens"]), case["cfg"], case["kind"])[0]]
    if case.get("live"):
        return judge_live(tuple(case["tokens"]), case["live"])
    if case.get("socket"):
        return judge_socket(tuple(case["tokens"]), case["cfg"], case["socket"][0], case["socket"][1])
    return judge(tuple(case["tokens"]), case["cfg"])[0]


def eval_block(block, acc):
    ring, first, k = block
    cfgs = DEFAULTS if ring == "default" else product_configs()
    if ring == "socket":
        for seq in [(first,)] + [(first, t) for t in ALPHABET]:
            for cfg in DEFAULTS[:1]:
                for chunk in (1, 2, 3, 5, 8, 13, 64):
                    for bufsize in (4, 16, 4096):
                        out = judge_socket(seq, cfg, chunk, bufsize)
                        acc.evaluations += 1
                        acc.transitions += 1
                        acc.outcomes[("socket", chunk, bufsize)] += 1
                        for key, detail in out:
                            acc.violation(key, {"tokens": list(seq), "cfg": cfg, "socket": [chunk, bufsize]}, detail)
        return
    if ring == "kinds":
        # other kinds of stream object: a BufferedReader (what open(..., "rb") returns), a pipe-like stream, a read/readline-only object
        for seq in [(first,)] + [(first, t) for t in ALPHABET] + [(t, first) for t in streams.NOISE_TOKENS] + [(n, first, m) for n in ("n00", "nabc") for m in ("n00", "N1", "R1", "Uack")]:
            for kind in ("buffered", "nonseekable", "minimal"):
                for cfg in DEFAULTS:
                    out, r, exp = judge(seq, cfg, kind)
                    acc.evaluations += 1
                    acc.transitions += len(r.items) + 1
                    acc.outcomes[("kind", kind, len(exp))] += 1
                    for key, detail in out:
                        if key == "stream_not_consumed" and kind != "buffered":
                            continue  # tell() is not available on these objects
                        acc.violation(key + f"|stream={kind}", {"tokens": list(seq), "cfg": cfg, "kind": kind}, detail)
        return
    if ring == "live":
        for seq in [(first,)] + [(first, t) for t in ALPHABET]:
            for a in product_configs():
                for cfgs in ([a, opposite(a)], [a, DEFAULTS[0]]):
                    out = judge_live(seq, cfgs)
                    acc.evaluations += 1
                    acc.transitions += 2
                    acc.outcomes[("live", a["msgmode"], a["validate"])] += 1
                    for key, detail in out:
                        acc.violation(key, {"tokens": list(seq), "live": cfgs}, detail)
        return
    if ring == "long":
        cfgs = DEFAULTS + [dict(msgmode=1, validate=0, quitonerror=1, handler=True)]
        seqs = streams.long_seqs(streams.LONG_NEIGHBOURS)
    else:
        seqs = [()] if first is None else ((first,) + t for t in streams.token_seqs(k - 1, ALPHABET))
    for seq in seqs:
        for cfg in cfgs:
            out, r, exp = judge(seq, cfg)
            acc.evaluations += 1
            acc.transitions += len(r.items) + 1
            acc.nstates += len(seq) + 1  # remaining-suffix states of this sequence
            acc.outcomes[(len(exp), tuple(sorted({streams.raw_class(b) for b, _ in exp})))] += 1
            acc.extra["frames_expected"] += len(exp)
            acc.extra["frames_rejected_by_parser"] += sum(
                1 for t in seq if TOKENS[t][1] == "frame" and vt(cfg)[t][0] == "rej")
            for key, detail in out:
                acc.violation(key, {"tokens": list(seq), "cfg": cfg, "stream": streams.seq_bytes(seq).hex()}, detail)
        if len(seq) == 3 and len(acc.samples) < 1:
            acc.sample({"tokens": list(seq), "expected": [b.hex() for b, _ in exp]})


def run_tier(tier, t0):
    q = tier == "quick"
    k_def, k_prod = (4, 3) if q else (5, 4)
    blocks = [("default", None, 0)]
    blocks += [("default", f, k_def) for f in ALPHABET]
    blocks += [("product", f, k_prod) for f in ALPHABET]
    blocks.append(("long", None, 0))
    blocks += [("socket", f, 2) for f in streams.FRAME_TOKENS]
    blocks += [("live", f, 2) for f in streams.FRAME_TOKENS]
    blocks += [("kinds", f, 2) for f in streams.FRAME_TOKENS]
    acc = engine.sweep(blocks, eval_block)
    # vacuity: per mode, at least one accepted and one rejected token per protocol that can be accepted
    vac = []
    for cfg in product_configs():
        table = verdict_table(cfg)
        for proto in (1, 2, 4):
            v = {table[t][0] for t in streams.FRAME_TOKENS if TOKENS[t][0] == proto}
            if "ok" in v:
                vac.append((f"cfg {cfg}: protocol {proto} has a rejected token too", "rej" in v or cfg["validate"] == 0))
    vac.append(("all three protocols delivered", {1, 2, 4} <= {p for k in acc.outcomes if len(k) == 2 for p in k[1]}))
    engine.finish(
        PROP, tier, acc, t0, replay_case,
        rule=(
            f"all sequences of <= {k_def} tokens over {len(ALPHABET)} tokens ({len(streams.FRAME_TOKENS)} frames incl. bad-checksum/CRC, "
            f"zero-length RTCM3, unknown-ID, embedded-preamble; {len(streams.NOISE_TOKENS)} noise) x 2 default configurations, and all "
            f"sequences of <= {k_prod} tokens x msgmode(4) x validate(2) x parsebitfield(2) x quitonerror(2). plus every boundary-length frame (RTCM3 255/256/511/512/1023-byte payloads, UBX 255/256/4096, 200-char NMEA) between every pair of 7 neighbour tokens. Expected items by construction "
            "from each token's standalone parser verdict. distinct_nontrivial = distinct (frames expected, protocols) classes"
        ),
        assumptions=[
            "stream-kind ring: sequences of <= 2 tokens (and noise-frame-noise/frame triples) through a BufferedReader, a pipe-like stream (seek/tell raise) and a read/readline-only object",
            "live-reader ring: for sequences of <= 2 tokens, each of the 32 option combinations is read while a second reader with the opposite options (and one with default options) is alive, constructed after it and drained in lock-step",
            "sequences of <= 2 tokens are also delivered through a socket in fixed chunks of 1,2,3,5,8,13,64 bytes x bufsize 4,16,4096 (every segmentation is C10's job)",
            "pynmeagps / pyrtcm parsers are the oracle for 'accepted by its protocol parser' (O4)",
            "noise tokens contain none of b5, 24, d3",
        ],
        vacuity=vac,
        extra_cov={"bounds": {"depth_default": k_def, "depth_product": k_prod}},
    )


if __name__ == "__main__":
    engine.main(PROP, run_tier, replay_case, eval_block)
