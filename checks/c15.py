"""C15 - bad attribute values are refused, never silently mis-encoded.

For every keyword-constructible (mode, definition), every attribute (plain, scaled, bit flag,
group member, group-size attribute, variant discriminator) and both bitfield views: one hostile
keyword at a time drawn from a fixed alphabet of Python values (out-of-range ints, floats incl.
nan/inf, str/bytes of width-1/width/width+1, lists, None, bool, containers, object()), plus all
pairs of hostile flags inside one bitfield.
Oracle: UBXMessageError/UBXTypeError, or a payload equal to the reference encoding (exact length,
hostile field decodes to the supplied value within one unit for scaled fields, every other field
at its default).  Any other exception, and any encoding of a value the reference codec says does
not fit, is a violation.
"""
import itertools
import math

from mc import boot  # noqa: F401
from mc import catalogue as C, construct as K, engine
from mc.refmodel import layout as L

from pyubx2 import UBXMessage
import pyubx2.exceptions as ube

PROP = "C15"
REFUSAL = (ube.UBXMessageError, ube.UBXTypeError)


class Obj:
    def __repr__(self):
        return "<object>"


def hostile_values(f, quick):
    """[(value class, value)] for field f."""
    out = []
    if f.kind == "flag":
        w = f.bits
        out += [("flag_too_wide", 1 << w), ("flag_all_ones_plus", (1 << (w + 1)) - 1), ("negative", -1), ("flag_max", (1 << w) - 1), ("int_10^5000", 10 ** 5000),
                ("float", 0.5), ("str", "1"), ("none", None), ("bool", True), ("bytes", b"\x01"), ("huge", 1 << 64)]
        if not quick:
            out += [("list", [1]), ("nan", float("nan")), ("object", Obj()), ("bool", False)]
        return out
    t = f.typ
    n = 5 if t == "CH" else L.tsize(t)
    k = t[0]
    if t != "CH" and k in "UEIL":
        lo, hi = L.int_range(t)
        out += [("max_plus_1", hi + 1), ("min_minus_1", lo - 1), ("max", hi), ("min", lo)]
    out += [("negative", -1), ("int_2^8", 1 << 8), ("int_2^32", 1 << 32), ("int_2^64", 1 << 64), ("int_10^5000", 10 ** 5000), ("int_-10^5000", -(10 ** 5000)),
            ("float_half", 0.5), ("nan", float("nan")), ("inf", float("inf")), ("float_1e308", 1e308),
            ("str_empty", ""), ("str_w", "a" * n), ("str_w+1", "a" * (n + 1)),
            ("bytes_empty", b""), ("bytes_w-1", bytes(max(n - 1, 0))), ("bytes_w", b"\x41" * n), ("bytes_w+1", bytes(n + 1)),
            ("list_empty", []), ("list_w", [0] * n), ("list_w+1", [0] * (n + 1)), ("list_256", [256] * n),
            ("none", None), ("bool", True)]
    if t != "CH" and k in "UI" and getattr(f, "scale", 1) != 1 and math.frexp(f.scale)[0] == 0.5:
        # fields scaled by a power of two (2**-5 .. 2**-55): exact multiples of the scale, so the raw integer the
        # payload must carry is not a matter of rounding - at, and one unit beyond, both ends of the range
        sc = f.scale
        out += [("scaled_raw_100", 100 * sc), ("scaled_raw_max", hi * sc), ("scaled_raw_min", lo * sc), ("scaled_raw_max_plus_1", (hi + 1) * sc), ("scaled_raw_min_minus_1", (lo - 1) * sc),
                ("scaled_raw_max_plus_4", (hi + 4) * sc)]
    if k != "C":  # text that reads as a number is still text
        out += [("str_numeric", "12"), ("str_numeric_float", "0.5"), ("bytes_numeric", b"12"), ("str_numeric_padded", " 7 ")]
    if k == "C":  # text given as bytes that are not valid UTF-8 (ISO 8859-1 is the documented encoding of these fields)
        out += [("bytes_w_latin1", b"\xe9" * max(n, 1)), ("bytes_w_latin1_mixed", (b"caf\xe9 \xb0" * n)[: max(n, 1)])]
    if k == "A":  # array fields: lists of exactly the defined length whose ITEMS are unfit
        out += [("list_w_of_float", [0.5] * n), ("list_w_of_none", [None] * n), ("list_w_of_str", ["a"] * n), ("list_w_last_item_float", [0] * (n - 1) + [1.5]),
                ("list_w_of_negative", [-1] * n), ("list_w_of_bool", [True] * n), ("list_w_of_list", [[0]] * n)]
    if not quick:
        out += [("int_2^16", 1 << 16), ("int_min64-1", -(1 << 63) - 1), ("neg_zero", -0.0), ("neg_inf", float("-inf")),
                ("str_1", "a"), ("str_nonascii", "é" * n), ("str_w-1", "a" * max(n - 1, 0)), ("list_1", [0]), ("tuple", ()), ("dict", {}),
                ("bool", False), ("object", Obj()), ("list_w-1", [0] * max(n - 1, 0))]
    return out


def same_value(a, b):
    if isinstance(a, float) and isinstance(b, float) and math.isnan(a) and math.isnan(b):
        return True
    return a == b


def judge(e, base_kw, hostile, pbf, site):
    """hostile: {name: value}.  Returns (status, violations)."""
    kw = dict(base_kw)
    kw.update(hostile)
    kw = K.trivial_kwarg(e, kw)
    special = L.special_of(e.mode, e.clsid)
    try:
        want, fields = L.encode(e.pdict, kw, pbf, special)
        unfit = None
    except L.Unfit as u:
        want, fields, unfit = None, None, u
    except Exception as ex:  # noqa: BLE001  reference cannot judge (e.g. unhashable discriminator)
        want, fields, unfit = None, None, L.Unfit("?", str(ex))
    try:
        m = UBXMessage(e.clsid[0:1], e.clsid[1:2], e.mode, parsebitfield=pbf, **kw)
        got = m.payload or b""
    except REFUSAL:
        return "refused", []
    except Exception as ex:  # noqa: BLE001
        return "viol", [(f"foreign_exception|{type(ex).__name__}|{site}", f"{e.label} {_show(hostile)!r:.80}: {ex}")]
    if unfit is not None:
        return "viol", [(f"unfit_value_encoded|{site}", f"{e.label} {_show(hostile)!r:.80} -> {got.hex()[:64]} (reference: {unfit})")]
    if got == want:
        return "encoded", []
    if len(got) != len(want):
        return "viol", [(f"payload_length_wrong|{site}", f"{e.label} {_show(hostile)!r:.80}: {len(got)} bytes, definition implies {len(want)}")]
    # allow +-1 unit on the hostile scaled fields only
    for f in fields:
        a, b = got[f.off : f.off + f.size], want[f.off : f.off + f.size]
        if f.kind == "flag":
            mask = ((1 << f.bits) - 1) << f.bitoff
            va, vb = int.from_bytes(a, "little") & mask, int.from_bytes(b, "little") & mask
            if va != vb:
                who = "hostile_field" if f.name in hostile else "other_field"
                return "viol", [(f"{who}_mis_encoded|{site}", f"{e.label} {_show(hostile)!r:.80}: flag {f.name} got {va >> f.bitoff} want {vb >> f.bitoff}")]
            continue
        if a == b:
            continue
        if f.name in hostile and f.scale != 1 and f.typ[0] in "UEIL":
            signed = f.typ[0] == "I"
            if abs(int.from_bytes(a, "little", signed=signed) - int.from_bytes(b, "little", signed=signed)) <= 1:
                continue
        who = "hostile_field" if f.name in hostile else "other_field"
        return "viol", [(f"{who}_mis_encoded|{site}", f"{e.label} {_show(hostile)!r:.80}: field {f.name} got {a.hex()} want {b.hex()}")]
    return "encoded", []


def field_class(e, f):
    if f.kind == "flag":
        return "flag"
    if f.off in e.pins and f.size == 1:
        return "discriminator"
    if f.base in C._size_fields(e.pdict):
        return "group_size"
    k = "CH" if f.typ == "CH" else f.typ[0]
    return k + ("_scaled" if f.scale != 1 else "")


def run_entry(e, quick, acc):
    sizes = C._size_fields(e.pdict)
    for pbf in (True, False):
        base_kw = dict(K.route_kwargs(e) or {})
        base_kw.update({n: 1 for n in sizes})
        try:
            _, fields = L.encode(e.pdict, K.trivial_kwarg(e, base_kw), pbf, L.special_of(e.mode, e.clsid))
        except L.Unfit:
            continue
        seen = set()
        for f in fields:
            if f.name in seen or f.name.startswith("_HP"):
                continue
            seen.add(f.name)
            fc = field_class(e, f)
            if f.path and max(f.path) > 1:
                continue  # first member of each group only
            for vclass, v in hostile_values(f, False):
                if fc == "discriminator" and isinstance(v, int) and 0 <= v <= 255:
                    continue  # a valid discriminator value legitimately selects another definition
                if fc == "group_size" and isinstance(v, int) and 1000 < v < (1 << (8 * f.size)):
                    # a legitimate large count mostly costs time; keep the field maximum once per definition:
                    # a payload that outgrows the 2-byte length field must be refused like any other overflow
                    if not (vclass == "max" and pbf and f.size == 2):
                        continue
                site = f"{fc}|{vclass}"
                st, out = judge(e, base_kw, {f.name: v}, pbf, site)
                acc.evaluations += 1
                acc.transitions += 1
                acc.outcomes[(fc, vclass, st)] += 1
                for key, detail in out:
                    acc.violation(key, {"entry": e.label, "hostile": {f.name: _j(v)}, "pbf": pbf, "site": site}, detail)
        # every value a discriminator byte can hold: whichever definition it selects (or none: refused), a message
        # that IS returned must carry the value supplied at the discriminator's offset
        for f in fields:
            if field_class(e, f) != "discriminator" or f.path:
                continue
            for v in range(256):
                kw = K.trivial_kwarg(e, dict(base_kw, **{f.name: v}))
                acc.evaluations += 1
                try:
                    m = UBXMessage(e.clsid[0:1], e.clsid[1:2], e.mode, parsebitfield=pbf, **kw)
                    got = m.payload or b""
                except REFUSAL:
                    acc.outcomes[("discriminator", "sweep", "refused")] += 1
                    continue
                except Exception as ex:  # noqa: BLE001
                    acc.violation(f"foreign_exception|{type(ex).__name__}|discriminator|sweep", {"entry": e.label, "disc": [f.name, v], "pbf": pbf}, str(ex))
                    continue
                acc.outcomes[("discriminator", "sweep", "encoded")] += 1
                if len(got) <= f.off or got[f.off] != v:
                    acc.violation("discriminator_value_dropped|sweep", {"entry": e.label, "disc": [f.name, v], "pbf": pbf}, f"{e.label} {f.name}={v}: payload {got.hex()[:40]!r}")
        # two hostile flags inside one bitfield
        if pbf:
            by_bf = {}
            for f in fields:
                if f.kind == "flag":
                    by_bf.setdefault(f.off, []).append(f)
            for off, fs in by_bf.items():
                for a, b in itertools.combinations(fs[:6] if quick else fs, 2):
                    for va, vb in (((1 << a.bits), (1 << b.bits)), ((1 << a.bits) - 1, (1 << b.bits)), (-1, 1)):
                        site = "flag_pair|too_wide"
                        st, out = judge(e, base_kw, {a.name: va, b.name: vb}, pbf, site)
                        acc.evaluations += 1
                        acc.outcomes[("flag_pair", "too_wide", st)] += 1
                        for key, detail in out:
                            acc.violation(key, {"entry": e.label, "hostile": {a.name: va, b.name: vb}, "pbf": pbf, "site": site}, detail)
    acc.states.add(e.label)


def _show(h):
    """repr of the hostile values that cannot itself fail (ints beyond the str-digit limit)."""
    return {k: (f"<int of {v.bit_length()} bits>" if isinstance(v, int) and not isinstance(v, bool) and v.bit_length() > 4000 else v) for k, v in h.items()}


def _j(v):
    if isinstance(v, int) and not isinstance(v, bool) and v.bit_length() > 4000:
        return {"hexint": hex(v)}
    if isinstance(v, bytes):
        return {"b": v.hex()}
    if isinstance(v, float) and (math.isnan(v) or math.isinf(v)):
        return {"f": repr(v)}
    if isinstance(v, Obj):
        return {"o": 1}
    if isinstance(v, tuple):
        return {"t": list(v)}
    return v


def _unj(v):
    if isinstance(v, dict):
        if "hexint" in v:
            return int(v["hexint"], 16)
        if "b" in v:
            return bytes.fromhex(v["b"])
        if "f" in v:
            return float(v["f"])
        if "o" in v:
            return Obj()
        if "t" in v:
            return tuple(v["t"])
    return v


def replay_case(case):
    e = next(x for x in C.entries() if x.label == case["entry"])
    if "disc" in case:
        base_kw = dict(K.route_kwargs(e) or {})
        base_kw.update({n: 1 for n in C._size_fields(e.pdict)})
        name, v = case["disc"]
        try:
            got = UBXMessage(e.clsid[0:1], e.clsid[1:2], e.mode, parsebitfield=case["pbf"], **K.trivial_kwarg(e, dict(base_kw, **{name: v}))).payload or b""
        except REFUSAL:
            return []
        except Exception as ex:  # noqa: BLE001
            return [(f"foreign_exception|{type(ex).__name__}|discriminator|sweep", str(ex))]
        _, fields = L.encode(e.pdict, K.trivial_kwarg(e, base_kw), case["pbf"], L.special_of(e.mode, e.clsid))
        off = next(f.off for f in fields if f.name == name)
        return [] if len(got) > off and got[off] == v else [("discriminator_value_dropped|sweep", got.hex()[:40])]
    base_kw = dict(K.route_kwargs(e) or {})
    base_kw.update({n: 1 for n in C._size_fields(e.pdict)})
    return judge(e, base_kw, {k: _unj(v) for k, v in case["hostile"].items()}, case["pbf"], case["site"])[1]


def eval_block(block, acc):
    ents = C.entries()
    for i in block[0]:
        e = ents[i]
        if not e.routed or C.invalid_types(e.pdict) or K.route_kwargs(e) is None:
            continue
        run_entry(e, block[1], acc)
    if len(acc.samples) < 1 and acc.states:
        acc.sample({"entry": sorted(acc.states)[0], "hostile values per attribute": "see rule"})


def run_tier(tier, t0):
    q = tier == "quick"
    ents = C.entries()
    idx = list(range(len(ents)))
    acc = engine.sweep([(idx[i::96], q) for i in range(96)], eval_block)
    nkw = sum(1 for e in ents if e.routed and not C.invalid_types(e.pdict) and K.route_kwargs(e) is not None)
    engine.finish(
        PROP, tier, acc, t0, replay_case,
        rule=(
            f"{nkw} keyword-constructible definitions x every attribute (first member of each group, size attributes, discriminators, flags) x 2 bitfield views x "
            f"{'~42' if q else '~42'} hostile values (one at a time) + all pairs of too-wide flags within a bitfield" + (" (first 6 flags)" if q else "")
            + ". distinct_nontrivial = distinct (field class, value class, verdict) outcomes"
        ),
        assumptions=[
            "the reference encoder decides whether a value fits its field; bool counts as int; ints are acceptable for float fields; a float field rounds to its IEEE format (O17); L001 stores 0..255 (O18)",
            "a scaled field may differ from the reference by one unit of resolution",
        ],
        vacuity=[
            (f"all {nkw} definitions exercised", len(acc.states) == nkw),
            ("both refusals and exact encodings observed", any(k[2] == "refused" for k in acc.outcomes) and any(k[2] == "encoded" for k in acc.outcomes)),
        ],
    )


if __name__ == "__main__":
    engine.main(PROP, run_tier, replay_case, eval_block)
