"""C05 - checksum validation never lets a malformed or corrupted frame through.

Fault enumeration over a family of valid frames (token frames, one frame per routed definition
at nominal length, every zero-length frame of all 65,536 class/IDs): every single-byte
substitution, insertion, deletion, truncation; double substitutions of short frames; bursts.
Plus every byte string B(SIGMA_P, L) handed to parse directly.
Oracle: parse(x, VALCKSUM) returns  =>  wellformed(x) (reference framing + Fletcher);
not wellformed  =>  UBXParseError.  VALNONE clause: a frame with corrupted checksum bytes parses
to the same identity and attributes as the intact frame.
"""
import itertools

from mc import boot  # noqa: F401
from mc import catalogue as C, engine, streams
from mc.refmodel import core as ref
from mc.streams import UBX_ERRORS

from pyubx2 import UBXReader
from pyubx2 import ubxhelpers as H
import pyubx2.exceptions as ube

PROP = "C05"
SIGMA_P = (0xB5, 0x62, 0x00, 0x01, 0x06, 0x13, 0x8B, 0xFF)


def fault_class(x: bytes):
    """Which well-formedness clause fails first (for finding keys)."""
    if x[0:2] != b"\xb5\x62":
        return "bad_header"
    if len(x) < 8:
        return "shorter_than_a_frame"
    if int.from_bytes(x[4:6], "little") != len(x) - 8:
        return "length_mismatch" + ("_zero_length_field" if x[4:6] == b"\x00\x00" else "")
    return "bad_checksum"


def judge(x: bytes, mode=0, pbf=1):
    wf = ref.wellformed(x)
    try:
        UBXReader.parse(x, msgmode=mode, validate=1, parsebitfield=pbf)
        ret = "returned"
    except ube.UBXParseError:
        ret = "parse-error"
    except UBX_ERRORS as e:
        ret = "other-ubx-error:" + type(e).__name__
    except Exception as e:  # noqa: BLE001
        ret = "foreign:" + type(e).__name__
    out = []
    if not wf:
        if ret == "returned":
            out.append((f"malformed_frame_accepted|{fault_class(x)}", f"x={x.hex()[:64]}"))
        elif ret != "parse-error":
            out.append((f"malformed_frame_not_UBXParseError|{fault_class(x)}|{ret}", f"x={x.hex()[:64]}"))
    return wf, ret, out


def attrs(msg):
    return {k: v for k, v in msg.__dict__.items() if not k.startswith("_")}


def judge_valnone(frame: bytes, ck: bytes, mode, pbf=1):
    """Frame with its checksum replaced by ck parses under VALNONE like the intact frame."""
    try:
        good = UBXReader.parse(frame, msgmode=mode, validate=1, parsebitfield=pbf)
    except UBX_ERRORS:
        return "intact-refused", []
    x = frame[:-2] + ck
    try:
        got = UBXReader.parse(x, msgmode=mode, validate=0, parsebitfield=pbf)
    except Exception as e:  # noqa: BLE001
        return "viol", [(f"valnone_refuses_corrupt_checksum|{type(e).__name__}", f"x={x.hex()[:64]}")]
    # having been parsed leniently must not make the corrupted frame acceptable afterwards
    if not ref.wellformed(x):
        try:
            UBXReader.parse(x, msgmode=mode, validate=1)
            return "viol", [("corrupt_frame_accepted_by_VALCKSUM_after_VALNONE_parse", f"x={x.hex()[:64]}")]
        except ube.UBXParseError:
            pass
        except Exception as e:  # noqa: BLE001
            return "viol", [(f"malformed_frame_not_UBXParseError|after_valnone|{type(e).__name__}", f"x={x.hex()[:64]}")]
    a, b = attrs(good), attrs(got)
    if good.identity != got.identity or repr(a) != repr(b) or list(a) != list(b):
        return "viol", [("valnone_parses_differently", f"x={x.hex()[:64]}")]
    # the same message: what it serializes to, and its payload / length, are those of the intact frame
    try:
        same = got.serialize() == good.serialize() and got.payload == good.payload and got.length == good.length
    except Exception as e:  # noqa: BLE001
        return "viol", [(f"valnone_message_unusable|{type(e).__name__}", f"x={x.hex()[:64]}")]
    if not same:
        return "viol", [("valnone_message_serializes_differently", f"x={x.hex()[:64]}: {got.serialize().hex()[:64]}")]
    return "ok", []


def faults(frame: bytes, values, double=False):
    n = len(frame)
    for i in range(n):
        for v in values:
            if v != frame[i]:
                yield ("sub", frame[:i] + bytes((v,)) + frame[i + 1 :])
    for i in range(n + 1):
        for v in values:
            yield ("ins", frame[:i] + bytes((v,)) + frame[i:])
    for i in range(n):
        yield ("del", frame[:i] + frame[i + 1 :])
    for k in range(n):
        yield ("trunc", frame[:k])
    for width in (2, 3, 4):
        for i in range(0, n - width + 1):
            for pat in (bytes(width), b"\xff" * width, bytes(b ^ 0xFF for b in frame[i : i + width])):
                yield ("burst", frame[:i] + pat + frame[i + width :])
    if double:
        for i, j in itertools.combinations(range(n), 2):
            for v in values:
                for u in values:
                    if v != frame[i] and u != frame[j]:
                        yield ("sub2", frame[:i] + bytes((v,)) + frame[i + 1 : j] + bytes((u,)) + frame[j + 1 :])


ALL = tuple(range(256))
FEW = (0x00, 0x01, 0x02, 0x62, 0xB5, 0x7F, 0x80, 0xFE, 0xFF)


def replay_case(case):
    if case["kind"] == "sealed":
        pl = bytearray((i * 7) % 256 for i in range(case["n"]))
        frame = ref.frame(0x04, 0x02, bytes(pl))
        content = frame[2:-5] + bytes.fromhex(case["tail"])
        return [(a + "|sealed_with_library_checksum", b) for a, b in judge(b"\xb5\x62" + content + H.calc_checksum(content), 0)[2]]
    if case["kind"] == "wrap":
        n = case["decl"] + 65536 * case["k"]
        content = bytes(case["cid"]) + case["decl"].to_bytes(2, "little") + bytes((i * 7 + 1) % 256 for i in range(n))
        return [(a + "|payload_longer_by_multiple_of_65536", b[:200]) for a, b in judge(b"\xb5\x62" + content + ref.fletcher8(content), case["mode"])[2]]
    if case["kind"] == "extreme":
        n, k, d = case["n"], case["k"], case["d"]
        pl = bytearray((i * 7) % 256 for i in range(n))
        frame = ref.frame(0x04, 0x02, bytes(pl))
        x = bytearray(frame)
        x[-2 - k] = (x[-2 - k] + d) % 256
        if case["paired"]:
            x[-3 - k] = (x[-3 - k] - d) % 256
        return [(a + "|max_length_frame", b) for a, b in judge(bytes(x), 0)[2]]
    if case["kind"] == "fault" and "pbf" in case:
        return [(a + f"|msgmode={case['mode']}|parsebitfield={case['pbf']}", b) for a, b in judge(bytes.fromhex(case["x"]), case["mode"], case["pbf"])[2]]
    if case["kind"] == "valnone" and "pbf" in case:
        return [(a + f"|msgmode={case['mode']}|parsebitfield={case['pbf']}", b) for a, b in judge_valnone(bytes.fromhex(case["frame"]), bytes.fromhex(case["ck"]), case["mode"], case["pbf"])[1]]
    if case["kind"] == "fault" and case.get("fault") == "fills":
        return [(a + "|uniform_fill", b) for a, b in judge(bytes.fromhex(case["x"]), 0)[2]]
    if case["kind"] == "fault":
        out = judge(bytes.fromhex(case["x"]), case.get("mode", 0))[2]
        return [(a + "|sealed_with_library_checksum", b) for a, b in out] if case.get("fault") == "sealed" else out
    return judge_valnone(bytes.fromhex(case["frame"]), bytes.fromhex(case["ck"]), case["mode"])[1]


def run_faults(frame, mode, values, double, acc, tag):
    for kind, x in faults(frame, values, double):
        wf, ret, out = judge(x, mode)
        acc.evaluations += 1
        acc.transitions += 1
        acc.outcomes[(kind, wf, ret.split(":")[0])] += 1
        if wf:
            acc.extra["fault_result_wellformed"] += 1
        for key, detail in out:
            acc.violation(key, {"kind": "fault", "x": x.hex(), "mode": mode, "fault": kind, "family": tag}, detail)


def run_valnone(frame, mode, cks, acc):
    for ck in cks:
        if ck == frame[-2:]:
            continue
        st, out = judge_valnone(frame, ck, mode)
        acc.evaluations += 1
        acc.transitions += 1
        acc.outcomes[("valnone", st)] += 1
        for key, detail in out:
            acc.violation(key, {"kind": "valnone", "frame": frame.hex(), "ck": ck.hex(), "mode": mode}, detail)


def single_byte_cks(frame):
    a, b = frame[-2], frame[-1]
    return [bytes((v, b)) for v in range(256) if v != a] + [bytes((a, v)) for v in range(256) if v != b]


def eval_block(block, acc):
    kind = block[0]
    quick = block[-1]
    if kind == "entries":
        ents = C.entries()
        for i in block[1]:
            e = ents[i]
            if not e.routed or C.invalid_types(e.pdict):
                continue
            pl = C.build_payload(e, lambda x: 1, 1, lambda i: (7 * i + 1) % 251, maxlen=600)
            if pl is None:
                continue
            frame = ref.frame(e.clsid[0], e.clsid[1], pl)
            short = len(frame) <= 24
            run_faults(frame, e.mode, FEW if (quick or not short) else ALL, False, acc, e.label)
            run_valnone(frame, e.mode, single_byte_cks(frame) if quick else single_byte_cks(frame) + [bytes((a, b)) for a in FEW for b in FEW], acc)
            acc.states.add(e.label)
        if len(acc.samples) < 1:
            acc.sample({"family": "definition frame", "frame": frame.hex()[:80], "faults": "sub/ins/del/trunc/burst"})
    elif kind == "tokens":
        for t in ("U0", "Uack", "Ucfg", "Uunk"):
            frame = streams.TOKENS[t][2]
            run_faults(frame, 0, ALL, False, acc, t)
            for mode2, pbf2 in ((3, 0), (3, 1), (1, 0), (0, 0)):
                for kind2, x in faults(frame, FEW, False):
                    wf, ret, out = judge(x, mode2, pbf2)
                    acc.evaluations += 1
                    acc.outcomes[("cfg", mode2, pbf2, wf, ret.split(":")[0])] += 1
                    for key, detail in out:
                        acc.violation(key + f"|msgmode={mode2}|parsebitfield={pbf2}", {"kind": "fault", "x": x.hex(), "mode": mode2, "pbf": pbf2, "fault": kind2, "family": t}, detail)
                for ck in single_byte_cks(frame)[::37]:
                    st2, out2 = judge_valnone(frame, ck, mode2, pbf2)
                    for key, detail in out2:
                        acc.violation(key + f"|msgmode={mode2}|parsebitfield={pbf2}", {"kind": "valnone", "frame": frame.hex(), "ck": ck.hex(), "mode": mode2, "pbf": pbf2}, detail)
            run_valnone(frame, 0, single_byte_cks(frame) if quick else [bytes((a, b)) for a in range(256) for b in range(256)], acc)
        for t in ("Uack", "Uunk"):
            frame = streams.TOKENS[t][2]
            for i in range(2, len(frame) - 2):
                for v in FEW:
                    content = frame[2:i] + bytes((v,)) + frame[i + 1 : -2]
                    xx = b"\xb5\x62" + content + H.calc_checksum(content)
                    wf, ret, out = judge(xx, 0)
                    acc.evaluations += 1
                    for key, detail in out:
                        acc.violation(key + "|sealed_with_library_checksum", {"kind": "fault", "x": xx.hex(), "mode": 0, "fault": "sealed"}, detail)
    elif kind == "double":
        _, t, i = block[:3]
        frame = streams.TOKENS[t][2]
        for j in range(i + 1, len(frame)):
            for v in ALL:
                if v == frame[i]:
                    continue
                head = frame[:i] + bytes((v,)) + frame[i + 1 : j]
                for u in ALL:
                    if u == frame[j]:
                        continue
                    x = head + bytes((u,)) + frame[j + 1 :]
                    wf, ret, out = judge(x, 0)
                    acc.evaluations += 1
                    acc.transitions += 1
                    acc.outcomes[("sub2", wf, ret.split(":")[0])] += 1
                    if wf:
                        acc.extra["fault_result_wellformed"] += 1
                    for key, detail in out:
                        acc.violation(key, {"kind": "fault", "x": x.hex(), "mode": 0, "fault": "sub2", "family": t}, detail)
    elif kind == "wrap":
        # insertion bursts of k x 65,536 bytes: the payload is longer than its length field by a multiple of 2^16
        # and the checksum over class..payload is CORRECT - only the length clause can refuse it
        for cid, decl in (((0x05, 0x01), 2), ((0x06, 0x00), 0), ((0x04, 0x02), 100), ((0x99, 0x01), 65535)):
            for k in (1, 2):
                n = decl + 65536 * k
                content = bytes(cid) + decl.to_bytes(2, "little") + bytes((i * 7 + 1) % 256 for i in range(n))
                x = b"\xb5\x62" + content + ref.fletcher8(content)
                for mode in (0, 1):
                    wf, ret, out = judge(x, mode)
                    acc.evaluations += 1
                    acc.transitions += 1
                    acc.outcomes[("wrap", wf, ret.split(":")[0])] += 1
                    for key, detail in out:
                        acc.violation(key + "|payload_longer_by_multiple_of_65536", {"kind": "wrap", "cid": list(cid), "decl": decl, "k": k, "mode": mode}, detail[:200])
    elif kind == "extreme":
        # frames at the largest payload lengths: corruptions of the last bytes incl. ones that keep the first
        # checksum byte unchanged (+1 / -1 on neighbouring bytes)
        for n in (65531, 65532, 65533, 65534, 65535):
            pl = bytearray((i * 7) % 256 for i in range(n))
            frame = ref.frame(0x04, 0x02, bytes(pl))
            # frames sealed with the library's own checksum helper: accepted only if that equals Fletcher
            for tail in (b"\x00\x00\x00", b"\x01\xff\x00", b"\xff\xff\xff", b"\x80\x00\x7f"):
                content = frame[2:-5] + tail
                xx = b"\xb5\x62" + content + H.calc_checksum(content)
                wf, ret, out = judge(xx, 0)
                acc.evaluations += 1
                acc.outcomes[("sealed", wf, ret.split(":")[0])] += 1
                for key, detail in out:
                    acc.violation(key + "|sealed_with_library_checksum", {"kind": "sealed", "n": n, "tail": tail.hex()}, detail)
            for k in (1, 2, 3, 4):
                for d in (1, 255, 0x80):
                    x = bytearray(frame)
                    x[-2 - k] = (x[-2 - k] + d) % 256
                    x[-3 - k] = (x[-3 - k] - d) % 256  # sum preserved: only the second checksum byte can notice
                    for xx in (bytes(x), bytes(frame[: -2 - k]) + bytes([(frame[-2 - k] + d) % 256]) + bytes(frame[-1 - k:])):
                        wf, ret, out = judge(xx, 0)
                        acc.evaluations += 1
                        acc.transitions += 1
                        acc.outcomes[("extreme", wf, ret.split(":")[0])] += 1
                        for key, detail in out:
                            acc.violation(key + "|max_length_frame", {"kind": "extreme", "n": n, "k": k, "d": d, "paired": xx == bytes(x)}, detail)
    elif kind == "fills":
        # uniform payloads (erased-flash ff, fe, 80, 7f, 00) of EVERY length in a range: the intact frame and all
        # 510 single-byte corruptions of its checksum (running sums at their largest for the ff fill)
        _, fill, cid, lo, hi = block[:5]
        for n in range(lo, hi):
            frame = ref.frame(cid[0], cid[1], bytes((fill,)) * n)
            for ck in [frame[-2:]] + single_byte_cks(frame):
                x = frame[:-2] + ck
                wf, ret, out = judge(x, 0)
                acc.evaluations += 1
                acc.transitions += 1
                acc.outcomes[("fills", wf, ret.split(":")[0])] += 1
                for key, detail in out:
                    acc.violation(key + "|uniform_fill", {"kind": "fault", "x": x.hex(), "mode": 0, "fault": "fills"}, detail)
    elif kind == "zero":
        cls = block[1]
        for mid in range(256):
            frame = ref.frame(cls, mid, b"")
            full = (not quick) or (mid % 64 == cls % 64)
            run_faults(frame, 0, ALL if full else FEW, False, acc, "zero-length")
            acc.nstates += 1
    elif kind == "bytes":
        _, pre, Lmax = block[:3]
        prefix = bytes(SIGMA_P[i] for i in pre)
        for n in range(0, Lmax - len(prefix) + 1):
            for t in itertools.product(SIGMA_P, repeat=n):
                x = prefix + bytes(t)
                wf, ret, out = judge(x, 0)
                acc.evaluations += 1
                acc.transitions += 1
                acc.outcomes[("bytes", wf, ret.split(":")[0])] += 1
                for key, detail in out:
                    acc.violation(key, {"kind": "fault", "x": x.hex(), "mode": 0, "fault": "arbitrary"}, detail)


def run_tier(tier, t0):
    q = tier == "quick"
    ents = C.entries()
    idx = list(range(len(ents)))
    blocks = [("entries", idx[i::64], q) for i in range(64)]
    blocks.append(("tokens", q))
    blocks.append(("extreme", q))
    blocks.append(("wrap", q))
    for t in ("U0", "Uack") if q else ("U0", "Uack", "Ucfg"):
        blocks += [("double", t, i, q) for i in range(len(streams.TOKENS[t][2]) - 1)]
    FH = 160 if q else 640
    blocks += [("fills", f, cid, lo, min(lo + 40, FH), q) for f in (0xFF, 0xFE, 0x80, 0x7F, 0x00) for cid in ((0x99, 0x01), (0x04, 0x02)) for lo in range(0, FH, 40)]
    blocks += [("zero", cls, q) for cls in range(256)]
    LB = 7 if q else 9
    blocks += [("bytes", list(p), LB, q) for p in itertools.product(range(8), repeat=2)]
    acc = engine.sweep(blocks, eval_block)
    engine.finish(
        PROP, tier, acc, t0, replay_case,
        rule=(
            "faults {every 1-byte substitution, insertion, deletion, every truncation, 2-4 byte bursts (00/ff/complement)} applied to: one frame per routed definition "
            f"(values: {'9 boundary bytes' if q else 'all 256 for frames <=24 bytes, 9 boundary bytes otherwise'}), 4 token frames (all 256 values; all double substitutions of the 8- and 10-byte frames), "
            f"every zero-length frame of all 65,536 class/IDs ({'all values for 1/64 of the IDs, 9 boundary bytes for the rest' if q else 'all 256 values'}); every byte string of length<={LB} over "
            f"{[hex(x) for x in SIGMA_P]}; VALNONE clause with {'all 510 single-byte' if q else 'single-byte and lattice / all 65,535 (tokens)'} checksum corruptions. "
            "distinct_nontrivial = distinct (fault kind, well-formed?, verdict) classes"
        ),
        assumptions=["well-formedness = reference framing + independent Fletcher (mc/refmodel/core.py)", f"extra families: uniform payloads (ff, fe, 80, 7f, 00) of every length 0..{FH - 1} x 2 class/IDs x (intact + all 510 single-byte checksum corruptions); maximum-length frames (65,531..65,535-byte payloads) with checksum-neutral corruptions and frames sealed with the library's own checksum helper; insertion bursts of 1 and 2 x 65,536 bytes with a correct checksum (payload longer than its length field by a multiple of 2^16); fault classes also under (msgmode, parsebitfield) = (3,0),(3,1),(1,0),(0,0)"],
        vacuity=[
            ("some faulted inputs were themselves well-formed and accepted", any(k[1] is True and k[2] == "returned" for k in acc.outcomes if len(k) == 3)),
            ("malformed inputs rejected with UBXParseError", any(k[1] is False and k[2] == "parse-error" for k in acc.outcomes if len(k) == 3)),
        ],
    )


if __name__ == "__main__":
    engine.main(PROP, run_tier, replay_case, eval_block)
