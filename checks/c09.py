"""C09 - a stream cut at any byte yields a prefix of the uncut stream's output.

Crash-point enumeration: every cut position of every byte string B(SIGMA, L) and of every
token sequence (with preamble fragments) up to a depth, under ignore/log error policies and
both validate settings.  Oracle: items(S[:k]) is a prefix of items(S); no exception; the cut
stream is fully consumed; for clean sequences, every frame wholly before the cut is delivered.
"""
import itertools

from mc import boot  # noqa: F401
from mc import engine, streams
from mc.streams import TOKENS, run_reader, item_sigs

PROP = "C09"
CFGS = [
    dict(quitonerror=0, validate=1),
    dict(quitonerror=1, handler=True, validate=1),
    dict(quitonerror=0, validate=0),
    dict(quitonerror=0, validate=1, protfilter=2),
    dict(quitonerror=1, handler=True, validate=0, msgmode=1, protfilter=5),
]
ALPHABET = streams.FRAME_TOKENS + streams.NOISE_TOKENS + streams.FRAG_TOKENS
# depth 4 (thorough) uses one representative per behaviour class
ALPHA4 = [t for t in ALPHABET if t not in ("Npubx", "Nunk", "R2", "Ucfg", "nabc", "nff", "n62", "fb56205", "f24", "fd3")]
_VT = {}


def vt(cfg):
    k = (cfg.get("msgmode", 0), cfg.get("validate", 1))
    if k not in _VT:
        _VT[k] = streams.verdict_table(cfg)
    return _VT[k]


def make_stream(kind, data):
    if kind == "bytesio":
        return None
    if kind.startswith("sock:"):  # a socket whose peer closes after the last byte, fixed recv chunks
        return streams.ChunkSocket(data, int(kind[5:]), "close")
    return streams.STREAM_KINDS[kind](data)


def judge_cut(data, k, cfg, full, clean_ends=None, kind="bytesio"):
    """full = item_sigs of the uncut run.  Returns [(key, detail)]."""
    r = run_reader(data[:k], cfg, stream=make_stream(kind, data[:k]))
    out = []
    if r.raised is not None:
        out.append((f"raised|{type(r.raised).__name__}", f"cut={k}: {r.raised}"))
        return out, r
    if r.horizon:
        out.append(("no_termination", f"cut={k}"))
        return out, r
    got = item_sigs(r)
    if got != full[: len(got)]:
        i = 0
        while i < len(got) and i < len(full) and got[i] == full[i]:
            i += 1
        partial = "partial_frame" if (i >= len(full) or got[i][0] != full[i][0]) else "parsed_differs"
        out.append((f"not_a_prefix|{partial}|class={streams.raw_class(got[i][0])}", f"cut={k} item {i}: {got[i][0].hex()}"))
    if r.tell != k and not kind.startswith("sock:"):
        out.append(("cut_stream_not_consumed", f"cut={k} tell={r.tell}"))
    if clean_ends is not None:
        want = sum(1 for e in clean_ends if e <= k)
        if len(got) != want:
            out.append(("clean_frame_before_cut_lost", f"cut={k}: {len(got)} items, {want} frames end before the cut"))
    return out, r


def judge_stream(data, cfg, clean_ends, acc, case_base, kind="bytesio", cuts=None):
    r0 = run_reader(data, cfg, stream=make_stream(kind, data))
    acc.evaluations += 1
    if r0.raised is not None or r0.horizon:
        # k = len(S) is a cut position too: with errors ignored or logged the read must end without raising
        acc.extra["uncut_run_failed"] += 1
        case = dict(case_base)
        case.update(cut=len(data), cfg=cfg, kind=kind, uncut=True)
        key = f"raised|{type(r0.raised).__name__}|uncut_stream" if r0.raised is not None else "no_termination|uncut_stream"
        acc.violation(key + ("" if kind == "bytesio" else f"|stream={kind}"), case, f"{r0.raised!r:.200}")
        return
    full = item_sigs(r0)
    for k in (range(len(data) + 1) if cuts is None else cuts):
        out, r = judge_cut(data, k, cfg, full, clean_ends, kind)
        acc.evaluations += 1
        acc.transitions += len(r.items) + 1
        acc.nstates += 1  # (stream, cut) crash point
        acc.outcomes[(len(full), len(r.items))] += 1
        for key, detail in out:
            case = dict(case_base)
            case.update(cut=k, cfg=cfg, kind=kind)
            acc.violation(key + ("" if kind == "bytesio" else f"|stream={kind}"), case, detail)


def run_stream(tok, n):
    unit = bytes.fromhex(tok[2:]) if tok.startswith("0x") else TOKENS[tok][2]
    return streams.seq_bytes(("Uack",)) + unit * n + streams.seq_bytes(("Uack", "N1"))


def replay_case(case):
    data = run_stream(*case["run"]) if case.get("run") else bytes.fromhex(case["stream"])
    cfg = case["cfg"]
    if case.get("uncut"):
        kind = case.get("kind", "bytesio")
        r0 = run_reader(data, cfg, stream=make_stream(kind, data))
        if r0.raised is None and not r0.horizon:
            return []
        key = f"raised|{type(r0.raised).__name__}|uncut_stream" if r0.raised is not None else "no_termination|uncut_stream"
        return [(key + ("" if kind == "bytesio" else f"|stream={kind}"), f"{r0.raised!r:.200}")]
    r0 = run_reader(data, cfg)
    full = item_sigs(r0)
    clean_ends = case.get("clean_ends")
    kind = case.get("kind", "bytesio")
    if kind != "bytesio":
        full = item_sigs(run_reader(data, cfg, stream=make_stream(kind, data)))
    out = judge_cut(data, case["cut"], cfg, full, clean_ends, kind)[0]
    return [(k + ("" if kind == "bytesio" else f"|stream={kind}"), d) for k, d in out]


def clean_ends_of(seq, cfg):
    """Frame end offsets if every token is a frame its parser accepts, else None."""
    table = vt(cfg)
    mask = cfg.get("protfilter", 7)
    ends, pos = [], 0
    for t in seq:
        if TOKENS[t][1] != "frame" or table[t][0] != "ok":
            return None
        pos += len(TOKENS[t][2])
        if TOKENS[t][0] & mask:  # frames of a filtered-out protocol are framed but not delivered
            ends.append(pos)
    return ends


def eval_block(block, acc):
    if block[0] == "bytes":
        for data in streams.iter_block(tuple(block[1]) if block[1][0] == "short" else ("pre", block[1][1], block[1][2])):
            for cfg in CFGS:
                judge_stream(data, cfg, None, acc, {"stream": data.hex()})
    elif block[0] == "kinds":
        # other kinds of stream object: pipe-like (tell/seek raise) and minimal (read/readline only)
        first = block[1]
        for seq in [(first,)] + [(first, t) for t in ALPHABET]:
            data = streams.seq_bytes(seq)
            for kind in ("nonseekable", "minimal", "buffered"):
                for cfg in CFGS[:2]:
                    judge_stream(data, cfg, clean_ends_of(seq, cfg), acc, {"stream": data.hex(), "tokens": list(seq), "clean_ends": clean_ends_of(seq, cfg)}, kind)
        return
    elif block[0] == "swallow":
        for seq in streams.swallow_seqs():
            if seq[0] != block[1] and not (block[1] is None and seq[0] in streams.SWALLOW_TOKENS):
                continue
            data = streams.seq_bytes(seq)
            for cfg in CFGS + [dict(quitonerror=0, parsing=False), dict(quitonerror=1, handler=True, parsing=False, protfilter=6)]:
                judge_stream(data, cfg, None, acc, {"stream": data.hex(), "tokens": list(seq), "clean_ends": None})
        return
    elif block[0] == "sock":
        # the peer of a socket closes at every byte: clean sequences of <= 3 frames, recv chunks x receive buffer sizes
        first = block[1]
        frames = [t for t in streams.FRAME_TOKENS if vt(CFGS[0])[t][0] == "ok"]
        for seq in [(first,)] + [(first, t) for t in frames] + [(first, t, u) for t in ("Uack", "N1", "R1") for u in ("Uack", "N1", "R1")]:
            data = streams.seq_bytes(seq)
            for chunk, bufsize in ((1, 4), (5, 8), (16, 16), (7, 64), (64, 32), (4096, 4096)):
                cfg = dict(CFGS[0]); cfg["bufsize"] = bufsize
                ce = clean_ends_of(seq, cfg)
                judge_stream(data, cfg, ce, acc, {"stream": data.hex(), "tokens": list(seq), "clean_ends": ce}, f"sock:{chunk}")
        return
    elif block[0] == "runs":
        # one frame, then more than 1,000 consecutive rejected items of one kind (bad-checksum frames of each
        # protocol, content-refused frames, single false-sync bytes), then two frames: cuts at every byte of the first
        # and last 48 bytes and at every 211th byte in between
        tok, n = block[1], block[2]
        data = run_stream(tok, n)
        cuts = sorted(set(range(0, 49)) | set(range(len(data) - 48, len(data) + 1)) | set(range(0, len(data), 211)))
        for cfg in CFGS[:2]:
            judge_stream(data, cfg, None, acc, {"run": [tok, n], "clean_ends": None}, cuts=cuts)
        return
    elif block[0] == "long":
        L = block[1]
        # (a, L) first: the block starts from pristine state, and a frame read before L must read the same after it
        seqs = [(a, L) for a in streams.LONG_NEIGHBOURS] + [(L, b) for b in streams.LONG_NEIGHBOURS] + [(L,)]
        for seq in seqs:
            data = streams.seq_bytes(seq)
            for cfg in CFGS[:2] if len(data) > 2000 else CFGS:
                ce = clean_ends_of(seq, cfg)
                judge_stream(data, cfg, ce, acc, {"stream": data.hex(), "tokens": list(seq), "clean_ends": ce})
        return
    else:
        _, first, k = block[:3]
        alpha = ALPHA4 if (len(block) > 3 and block[3] == "a4") else ALPHABET
        seqs = [()] if first is None else ((first,) + t for t in streams.token_seqs(k - 1, alpha))
        for seq in seqs:
            data = streams.seq_bytes(seq)
            for cfg in CFGS:
                ce = clean_ends_of(seq, cfg)
                if ce is not None:
                    acc.extra["clean_sequences"] += 1
                judge_stream(data, cfg, ce, acc, {"stream": data.hex(), "tokens": list(seq), "clean_ends": ce})
            if len(seq) == 3 and len(acc.samples) < 1:
                acc.sample({"tokens": list(seq), "cuts": len(data) + 1})


def run_tier(tier, t0):
    q = tier == "quick"
    L, k = (6, 3) if q else (7, 4)
    blocks = [("bytes", list(b)) for b in streams.byte_blocks(L)]
    if q:
        blocks += [("tokens", None, 0)] + [("tokens", f, 3) for f in ALPHABET]
    else:
        blocks += [("tokens", None, 0)] + [("tokens", f, 3) for f in ALPHABET]
        for f in ALPHA4:  # depth 4 over the reduced alphabet, sharded by the first two tokens
            blocks += [("tokens", f, 4, "a4")]
    blocks += [("long", L) for L in streams.LONG_NAMES]
    blocks += [("kinds", f) for f in streams.FRAME_TOKENS + streams.FRAG_TOKENS]
    blocks += [("runs", t, 1100) for t in ("Ubad", "Nbad", "Rbad", "Ntype", "Umsg")] + [("runs", t, 2500) for t in ("0xb5", "0x24", "0xd3", "0xb562")]
    blocks += [("swallow", a) for a in (None, "Uack", "N1", "R1")]
    blocks += [("sock", f) for f in streams.FRAME_TOKENS if vt(CFGS[0])[f][0] == "ok"]
    if not q:
        # depth 4 restricted to frame tokens (clean and rejected), all cuts
        pass
    acc = engine.sweep(blocks, eval_block)
    engine.finish(
        PROP, tier, acc, t0, replay_case,
        rule=(
            f"every cut position of every byte string over the 8-symbol alphabet of length<={L} and of every sequence of <= 3 tokens "
            f"over {len(ALPHABET)} tokens (frames, noise, fragments)" + ("" if q else f" and of every sequence of 4 tokens over a reduced alphabet of {len(ALPHA4)}") + f" x {len(CFGS)} configurations (ignore / log+handler x validate 0/1). "
            "distinct_nontrivial = distinct (items of uncut run, items of cut run) pairs"
        ),
        assumptions=["io.BytesIO(S[:k]) models a stream that ends after k bytes; token sequences of <= 2 are also read through a pipe-like stream (tell/seek raise) a minimal read/readline-only object and a BufferedReader", "runs: one frame, 1,100 consecutive rejected frames of one kind (bad checksum per protocol, content refused) or 2,500 false-sync bytes (b5, 24, d3, b5 62), two frames; cut at every byte of the first and last 48 and every 211th between; the uncut stream itself (k = len S) must end without raising", "swallow ring: headers announcing far more data than follows (UBX length fff0/8000/ffff/7fff, RTCM3 1023) before two frames, every cut, 7 configurations incl. parsing=False", "socket ring: clean sequences of <= 3 accepted frames through a socket whose peer closes after k bytes, for every k, x (recv chunk, bufsize) in (1,4),(5,8),(16,16),(7,64),(64,32),(4096,4096)", "parsed items compared by type, str() and serialize()"],
        vacuity=[
            ("some cut run delivered fewer items than the uncut run", any(a > b for (a, b) in acc.outcomes)),
            ("clean sequences were explored", acc.extra["clean_sequences"] > 0),
        ],
        extra_cov={"bounds": {"L": L, "token_depth": k}},
    )


if __name__ == "__main__":
    engine.main(PROP, run_tier, replay_case, eval_block)
