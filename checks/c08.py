"""C08 - no input makes parsing or reading fail with a foreign exception or hang.

parse half : C01's frame spaces (A), (B), (C) + all byte strings over a header-relevant
             alphabet with validate VALNONE/VALCKSUM x msgmode x parsebitfield; every returned
             message is inspected (str, repr, identity, length, payload, msgmode, msg_cls,
             msg_id, serialize).
stream half: byte strings B(SIGMA, L) and token sequences (with fragments) under
             quitonerror(3) x protfilter(8) x msgmode(4) x validate(2) x parsebitfield(2);
             one stream per named class/ID holding its frame at every length 0..nominal+16.
Oracle: parse returns or raises a UBX* error; inspection raises nothing; iteration ends within a
deterministic horizon; IGNORE/LOG never raise; RAISE raises only UBX*/NMEA*/RTCM* errors.
"""
import itertools
import signal

from mc import boot  # noqa: F401
from mc import catalogue as C, engine, framespace as FS, streams
from mc.refmodel import core as ref
from mc.streams import UBX_ERRORS, PROTO_ERRORS, run_reader

from pyubx2 import UBXReader

PROP = "C08"
SIGMA_P = (0xB5, 0x62, 0x00, 0x01, 0x06, 0x13, 0x8B, 0xFF)
WATCHDOG_S = 60


class Hang(BaseException):
    pass


def _alarm(signum, frame):
    raise Hang()


def inspect(msg):
    """Every documented way of looking at a message; returns the first failure or None."""
    for name, fn in (
        ("str", lambda: str(msg)),
        ("repr", lambda: repr(msg)),
        ("identity", lambda: msg.identity),
        ("length", lambda: msg.length),
        ("payload", lambda: msg.payload),
        ("msgmode", lambda: msg.msgmode),
        ("msg_cls", lambda: msg.msg_cls),
        ("msg_id", lambda: msg.msg_id),
        ("serialize", lambda: msg.serialize()),
    ):
        try:
            fn()
        except Exception as e:  # noqa: BLE001
            return name, e
    return None


def site_of(data: bytes):
    cls = f"{data[2]:02x}" if len(data) > 2 else "--"
    n = len(data) - 8
    return f"cls={cls}|{'short' if len(data) < 8 else ('empty' if n == 0 else 'nonempty')}"


_TICK = [0]


def judge_parse(data: bytes, mode, validate, pbf):
    # rolling watchdog: re-armed every 256 calls, so a hang in any call fires within WATCHDOG_S
    tick()
    try:
        try:
            msg = UBXReader.parse(data, msgmode=mode, validate=validate, parsebitfield=pbf)
        except UBX_ERRORS:
            return "ubx-error", []
        except Hang:
            return "hang", [(f"parse_hangs|{site_of(data)}", f">{WATCHDOG_S}s")]
        except Exception as e:  # noqa: BLE001
            return "foreign", [(f"parse_raises_foreign|{type(e).__name__}|{site_of(data)}", f"{e}")]
        try:
            bad = inspect(msg)
        except Hang:
            return "hang", [(f"inspect_hangs|{site_of(data)}", f">{WATCHDOG_S}s")]
        if bad:
            return "inspect-fail", [(f"inspect_raises|{bad[0]}|{type(bad[1]).__name__}|{site_of(data)}", f"{bad[1]}")]
        return "ok", []
    finally:
        pass


def tick():
    # CPU-time watchdog (ITIMER_VIRTUAL counts this process's own user time, so machine load cannot
    # turn a slow legitimate call into a reported hang; a hang here is a busy loop - all streams are in memory)
    if _TICK[0] % 256 == 0:
        signal.signal(signal.SIGVTALRM, _alarm)
        signal.setitimer(signal.ITIMER_VIRTUAL, WATCHDOG_S)
    _TICK[0] += 1


def disarm():
    signal.setitimer(signal.ITIMER_VIRTUAL, 0)


def judge_stream(data: bytes, cfg, kind=None):
    tick()
    try:
        r = run_reader(data, cfg, stream=streams.STREAM_KINDS[kind](data) if kind else None)
    except Hang:
        r = streams.Run()
        r.horizon = True
        r.calls = -1
        return r, [(f"read_hangs|q={cfg.get('quitonerror', 0)}", f">{WATCHDOG_S}s")]
    out = []
    q = cfg.get("quitonerror", 0)
    if r.horizon:
        out.append((f"no_termination|q={q}", f"calls={r.calls}"))
    if r.raised is not None:
        if q in (0, 1):
            out.append((f"raises_under_ignore_or_log|q={q}|{type(r.raised).__name__}", str(r.raised)))
        elif not isinstance(r.raised, PROTO_ERRORS):
            out.append((f"raises_foreign_under_raise|{type(r.raised).__name__}", str(r.raised)))
    # the items delivered must be inspectable too
    for raw, p in r.items:
        if p is not None and type(p).__name__ == "UBXMessage":
            bad = inspect(p)
            if bad:
                out.append((f"inspect_raises|{bad[0]}|{type(bad[1]).__name__}|{site_of(raw)}", str(bad[1])))
                break
    return r, out


def replay_case(case):
    _TICK[0] = 0
    try:
        return _replay_case(case)
    finally:
        disarm()


def _replay_case(case):
    if case["kind"] == "run":
        data = streams.TOKENS[case["tok"]][2] * case["n"] + streams.TOKENS["Uack"][2]
        return [(k + "|long_run_of_discarded_messages", d) for k, d in judge_stream(data, case["cfg"])[1]]
    if case["kind"] == "socket":
        acc = engine.Acc()
        data = bytes.fromhex(case["data"])
        try:
            rd = UBXReader(streams.ChunkSocket(data, case["chunk"], case["end"]), bufsize=case["bufsize"], quitonerror=case["q"])
            n = 0
            for raw, parsed in rd:
                n += 1
                if n > len(data) + 8:
                    raise streams.Horizon()
            st = "end"
        except streams.Horizon:
            st = "no-termination"
        except PROTO_ERRORS:
            st = "proto-error" if case["q"] == 2 else "raised-under-ignore"
        except Exception as e:  # noqa: BLE001
            st = "foreign:" + type(e).__name__
        return [] if st in ("end", "proto-error") else [(f"socket_stream_{st.replace(':', '|')}|end={case['end']}|q={case['q']}", "")]
    if case["kind"] == "parse" and "data_gen" in case:
        g = case["data_gen"]
        data = b"\xb5\x62" + bytes.fromhex(g["cid"]) + bytes.fromhex(g["len"]) + bytes(g["n"]) + bytes.fromhex(g["ck"])
        return [(k.replace("|nonempty", "|oversize"), d) for k, d in judge_parse(data, case["mode"], case["validate"], case["pbf"])[1]]
    if case["kind"] == "parse":
        return [(k + case.get("suffix", ""), d) for k, d in judge_parse(bytes.fromhex(case["data"]), case["mode"], case["validate"], case["pbf"])[1]]
    if case.get("stream_kind"):
        return [(k + f"|stream={case['stream_kind']}", d) for k, d in judge_stream(bytes.fromhex(case["data"]), case["cfg"], case["stream_kind"])[1]]
    return judge_stream(bytes.fromhex(case["data"]), case["cfg"])[1]


def stream_configs():
    return [
        dict(quitonerror=q, handler=(q == 1), protfilter=pf, msgmode=mm, validate=va, parsebitfield=pb)
        for q, pf, mm, va, pb in itertools.product((0, 1, 2), range(8), range(4), (0, 1), (0, 1))
    ]


SCOVER = [
    dict(quitonerror=0), dict(quitonerror=1, handler=True, validate=0, msgmode=3),
    dict(quitonerror=2), dict(quitonerror=2, validate=0, msgmode=1, parsebitfield=0),
    dict(quitonerror=1, handler=False, msgmode=2, protfilter=3), dict(quitonerror=2, msgmode=3, protfilter=6),
]


def eval_block(block, acc):
    _TICK[0] = 0
    try:
        _eval_block(block, acc)
    finally:
        disarm()


def _eval_block(block, acc):
    kind = block[0]
    if kind in ("A", "B", "C"):
        ents = C.entries()
        if kind == "A":
            it = FS.space_a_block(block[1], block[2], block[3])
        elif kind == "B":
            it = FS.space_b_block(bytes.fromhex(block[1]), ents, block[2], None)
        else:
            it = FS.space_c()
        for cid, pl, mode, pbf in it:
            frame = ref.frame(cid[0], cid[1], pl)
            for va in (1,) if kind == "A" else (1, 0):
                st, out = judge_parse(frame, mode, va, pbf)
                acc.evaluations += 1
                acc.transitions += 1
                acc.outcomes[("parse", cid[0], st)] += 1
                for key, detail in out:
                    acc.violation(key, {"kind": "parse", "data": frame.hex(), "mode": mode, "validate": va, "pbf": pbf}, detail)
    elif kind == "P":  # byte strings handed to parse()
        _, pre, Lmax = block
        prefix = bytes(SIGMA_P[i] for i in pre)
        for n in range(0, Lmax - len(prefix) + 1):
            for t in itertools.product(SIGMA_P, repeat=n):
                data = prefix + bytes(t)
                for mode in range(4):
                    for va, pbf in ((0, 1), (0, 0), (1, 1)):
                        st, out = judge_parse(data, mode, va, pbf)
                        acc.evaluations += 1
                        acc.transitions += 1
                        acc.outcomes[("bytes", len(data) >= 8, st)] += 1
                        for key, detail in out:
                            acc.violation(key, {"kind": "parse", "data": data.hex(), "mode": mode, "validate": va, "pbf": pbf}, detail)
    elif kind == "Pbig":
        # inputs longer than any frame can be: 65,535-byte payload boundary, all header shapes
        for n in (65535, 65536, 65537, 70000, 131072):
            for lenfield in (b"\x00\x00", b"\x01\x00", b"\xff\xff", (n & 0xFFFF).to_bytes(2, "little")):
                for cid in (b"\x05\x01", b"\x0a\x04", b"\x00\x00"):
                    body = cid + lenfield + bytes(n)
                    for data in (b"\xb5\x62" + body + ref.fletcher8(body), b"\xb5\x62" + body + b"\x00\x00"):
                        for mode in (0, 1):
                            for va in (1, 0):
                                st, out = judge_parse(data, mode, va, 1)
                                acc.evaluations += 1
                                acc.transitions += 1
                                acc.outcomes[("big", va, st)] += 1
                                for key, detail in out:
                                    acc.violation(key.replace("|nonempty", "|oversize"), {"kind": "parse", "data_gen": {"n": n, "len": lenfield.hex(), "cid": cid.hex(), "ck": data[-2:].hex()}, "mode": mode, "validate": va, "pbf": 1}, detail)
    elif kind == "Pref":
        # messages that REFER to another message by class and ID (ACK-ACK, ACK-NAK, CFG-MSG): every (class, ID) value
        for hi in range(block[1], 256, block[2]):
            for lo in range(256):
                for cid, tail, modes in (((0x05, 0x01), b"", (0,)), ((0x05, 0x00), b"", (0,)), ((0x06, 0x01), b"", (1, 2, 3)), ((0x06, 0x01), b"\x01", (1, 3)), ((0x06, 0x01), bytes(6), (1, 3))):
                    data = ref.frame(cid[0], cid[1], bytes([hi, lo]) + tail)
                    for mode in modes:
                        st, out = judge_parse(data, mode, 1, 1)
                        acc.evaluations += 1
                        acc.transitions += 1
                        acc.outcomes[("ref", cid[1], st)] += 1
                        for key, detail in out:
                            acc.violation(key + "|referenced_class=%02x" % hi, {"kind": "parse", "data": data.hex(), "mode": mode, "validate": 1, "pbf": 1, "suffix": "|referenced_class=%02x" % hi}, detail)
    elif kind == "Pcfg":
        # configuration key/value messages: every value of the key ID's top byte (size code, reserved bit) x group
        # in / not in the database x 0..9 value bytes x a second item; parse and stream, all modes
        for top in range(256) if block[1] == "top" else ():
            for rest in (0x110001, 0x910001, 0xFF0FFF, 0x000000):
                kid = (top << 24) | rest
                for nval in range(0, 10):
                    body = kid.to_bytes(4, "little") + bytes(range(1, nval + 1))
                    for cid, hdr in (((0x06, 0x8B), b"\x01\x00\x00\x00"), ((0x06, 0x8A), b"\x00\x01\x00\x00"), ((0x06, 0x8C), b"\x00\x01\x00\x00")):
                        data = ref.frame(cid[0], cid[1], hdr + body)
                        for mode in range(4):
                            for pbf in (1, 0):
                                st, out = judge_parse(data, mode, 1, pbf)
                                acc.evaluations += 1
                                acc.transitions += 1
                                acc.outcomes[("cfgkey", top >> 4, st)] += 1
                                for key, detail in out:
                                    acc.violation(key + "|config_key_top_nibble=%x" % (top >> 4), {"kind": "parse", "data": data.hex(), "mode": mode, "validate": 1, "pbf": pbf, "suffix": "|config_key_top_nibble=%x" % (top >> 4)}, detail)
    elif kind == "Pshort":
        for n in range(0, block[1]):
            for t in itertools.product(SIGMA_P, repeat=n):
                data = bytes(t)
                for mode in range(4):
                    for va in (0, 1):
                        st, out = judge_parse(data, mode, va, 1)
                        acc.evaluations += 1
                        acc.transitions += 1
                        acc.outcomes[("bytes", False, st)] += 1
                        for key, detail in out:
                            acc.violation(key, {"kind": "parse", "data": data.hex(), "mode": mode, "validate": va, "pbf": 1}, detail)
    elif kind in ("S", "T"):
        if kind == "S":
            cfgs = stream_configs() if block[2] == "full" else SCOVER
            it = streams.iter_block(tuple(block[1]) if block[1][0] == "short" else ("pre", block[1][1], block[1][2]))
        else:
            cfgs = SCOVER
            alphabet = streams.FRAME_TOKENS + streams.NOISE_TOKENS + streams.FRAG_TOKENS
            it = (streams.seq_bytes((block[1],) + t) for t in streams.token_seqs(block[2] - 1, alphabet))
        for data in it:
            for cfg in cfgs:
                r, out = judge_stream(data, cfg)
                acc.evaluations += 1
                acc.transitions += len(r.items) + 1
                acc.nstates += len(r.items) + 1
                acc.outcomes[("stream", cfg.get("quitonerror", 0), type(r.raised).__name__ if r.raised else "end")] += 1
                for key, detail in out:
                    acc.violation(key, {"kind": "stream", "data": data.hex(), "cfg": cfg}, detail)
    elif kind == "SK":  # other kinds of stream object: pipe-like (has seek/tell, both raise) and read/readline-only
        first = block[1]
        for seq in [(first,)] + [(first, t) for t in streams.FRAME_TOKENS + streams.NOISE_TOKENS]:
            data = streams.seq_bytes(seq)
            for sk in ("nonseekable", "minimal", "buffered"):
                for cfg in SCOVER + [dict(quitonerror=0, protfilter=6), dict(quitonerror=1, protfilter=5), dict(quitonerror=0, protfilter=3), dict(quitonerror=0, protfilter=0, parsing=False)]:
                    r, out = judge_stream(data, cfg, sk)
                    acc.evaluations += 1
                    acc.transitions += len(r.items) + 1
                    acc.outcomes[("kind", sk, cfg.get("quitonerror"), type(r.raised).__name__ if r.raised else "end")] += 1
                    for key, detail in out:
                        acc.violation(key + f"|stream={sk}", {"kind": "stream", "data": data.hex(), "cfg": cfg, "stream_kind": sk}, detail)
    elif kind == "E":  # boundary-length frames and content-refused frames between every pair of neighbours
        for seq in streams.long_seqs(streams.LONG_NEIGHBOURS):
            if seq[0] != block[1] and not (block[1] is None and seq[0] in streams.LONG_NAMES):
                continue
            data = streams.seq_bytes(seq)
            for cfg in SCOVER:
                r, out = judge_stream(data, cfg)
                acc.evaluations += 1
                acc.transitions += len(r.items) + 1
                acc.outcomes[("nb", cfg.get("quitonerror"), type(r.raised).__name__ if r.raised else "end")] += 1
                for key, detail in out:
                    acc.violation(key, {"kind": "stream", "data": data.hex(), "cfg": cfg}, detail)
    elif kind == "R":  # long runs of consecutive discarded messages (no delivered item in between)
        tok, n = block[1], block[2]
        data = streams.TOKENS[tok][2] * n + streams.TOKENS["Uack"][2]
        for cfg in (dict(quitonerror=0), dict(quitonerror=1, handler=True), dict(quitonerror=0, protfilter={1: 6, 2: 5, 4: 3}[streams.TOKENS[tok][0]]), dict(quitonerror=2, protfilter={1: 6, 2: 5, 4: 3}[streams.TOKENS[tok][0]])):
            r, out = judge_stream(data, cfg)
            acc.evaluations += 1
            acc.transitions += len(r.items) + 1
            acc.outcomes[("run", tok, cfg.get("quitonerror"), type(r.raised).__name__ if r.raised else "end")] += 1
            for key, detail in out:
                acc.violation(key + "|long_run_of_discarded_messages", {"kind": "run", "tok": tok, "n": n, "cfg": cfg}, detail)
    elif kind == "K":  # socket streams cut at every byte (peer closes / times out mid-frame)
        first = block[1]
        for seq in [(first,)] + [(first, t) for t in ("Uack", "N1", "R1", "Ubad")]:
            data = streams.seq_bytes(seq)
            for k in range(len(data) + 1):
                for chunk, bufsize in ((3, 4), (64, 4096), (1, 1)):
                    for end in ("close", "timeout"):
                        for q in (0, 2):
                            tick()
                            r = streams.Run()
                            try:
                                rd = UBXReader(streams.ChunkSocket(data[:k], chunk, end), bufsize=bufsize, quitonerror=q)
                                n = 0
                                for raw, parsed in rd:
                                    n += 1
                                    if n > len(data) + 4:
                                        raise streams.Horizon()
                                st = "end"
                            except (streams.Horizon, Hang):
                                st = "no-termination"
                            except PROTO_ERRORS as e:
                                st = "proto-error" if q == 2 else "raised-under-ignore"
                            except Exception as e:  # noqa: BLE001
                                st = "foreign:" + type(e).__name__
                            acc.evaluations += 1
                            acc.transitions += 1
                            acc.outcomes[("socket", q, st.split(":")[0])] += 1
                            if st not in ("end", "proto-error"):
                                acc.violation(f"socket_stream_{st.replace(':', '|')}|end={end}|q={q}", {"kind": "socket", "data": data[:k].hex(), "chunk": chunk, "bufsize": bufsize, "end": end, "q": q}, f"cut={k} chunk={chunk} bufsize={bufsize}")
    elif kind == "D":  # per class/ID stream: its frame at every length 0..nominal+16
        ents = C.entries()
        cid = bytes.fromhex(block[1])
        quick = block[2]
        nom = FS.nominal_len(cid, ents)
        for fill in ("inc", "ff"):
            if any(FS.amplifies(m, cid, FS.payload_of(fill, n)) for m in (0, 1, 2) for n in (8, nom + 16)):
                lens = sorted({0, 1, nom}) if quick else sorted({0, 1, 2, 3, max(nom - 1, 0), nom, nom + 1})
            elif quick and nom > 48:
                lens = sorted(set(range(0, 33)) | {nom - 1, nom, nom + 1, nom + 16})
            else:
                lens = range(0, nom + 17)
            data = b"".join(ref.frame(cid[0], cid[1], FS.payload_of(fill, n)) for n in lens)
            for q, mm, pb in itertools.product((0, 1, 2), (0, 1, 2, 3), (1, 0)):
                cfg = dict(quitonerror=q, handler=(q == 1), msgmode=mm, parsebitfield=pb)
                if q == 2:
                    # under RAISE feed each frame separately so that every one reaches the reader
                    pos = 0
                    for n in lens:
                        f = ref.frame(cid[0], cid[1], FS.payload_of(fill, n))
                        r, out = judge_stream(f, cfg)
                        acc.evaluations += 1
                        acc.transitions += 1
                        for key, detail in out:
                            acc.violation(key, {"kind": "stream", "data": f.hex(), "cfg": cfg}, detail)
                    continue
                r, out = judge_stream(data, cfg)
                acc.evaluations += 1
                acc.transitions += len(r.items) + 1
                acc.outcomes[("defstream", q, len(r.items) > 0)] += 1
                for key, detail in out:
                    acc.violation(key, {"kind": "stream", "data": data.hex(), "cfg": cfg}, detail)
        if len(acc.samples) < 1:
            acc.sample({"kind": "definition stream", "clsid": cid.hex(), "frames": len(list(lens)), "bytes": len(data)})


def run_tier(tier, t0):
    q = tier == "quick"
    lengths, fills = ((0, 1, 4), ("inc",)) if q else ((0, 1, 2, 3, 4), ("00", "ff", "inc"))
    LP, LS_full, LS_cover, k = (6, 3, 5, 2) if q else (8, 4, 7, 3)
    blocks = [("A", cls, lengths, fills) for cls in range(256)]
    blocks += [("B", cid.hex(), q) for cid in FS.known_clsids()]
    blocks.append(("C",))
    blocks.append(("Pshort", 2))
    blocks.append(("Pcfg", "top"))
    blocks += [("Pref", i, 16) for i in range(16)]
    blocks.append(("Pbig",))
    blocks += [("P", list(p), LP) for p in itertools.product(range(8), repeat=2)]
    blocks += [("S", list(b), "full") for b in streams.byte_blocks(LS_full)]
    blocks += [("S", list(b), "cover") for b in streams.byte_blocks(LS_cover)]
    alphabet = streams.FRAME_TOKENS + streams.NOISE_TOKENS + streams.FRAG_TOKENS
    blocks += [("T", f, k) for f in alphabet]
    blocks += [("D", cid.hex(), q) for cid in FS.known_clsids()]
    blocks += [("E", a) for a in [None] + streams.LONG_NEIGHBOURS]
    blocks += [("SK", f) for f in streams.FRAME_TOKENS]
    blocks += [("R", t, n) for t in ("Nbad", "N1", "Ubad", "Uack", "Rbad", "R1") for n in (1100, 3000)]
    blocks += [("K", f) for f in ("Uack", "Uinf", "N1", "R1", "Ubad", "Rz", "fb562", "fd300")]
    acc = engine.sweep(blocks, eval_block)
    engine.finish(
        PROP, tier, acc, t0, replay_case,
        rule=(
            f"parse: C01 spaces A (lengths {lengths}, fills {fills}), B, C with validate 1 and 0; all byte strings of length<={LP} over {[hex(x) for x in SIGMA_P]} "
            f"x msgmode(4) x (validate, parsebitfield) in 3 combinations; every returned message inspected 9 ways; inputs of 65,535..131,072 payload bytes with 4 length-field shapes. "
            f"stream: all byte strings of length<={LS_full} x 384 configurations and length<={LS_cover} x 6 covering configurations; token sequences of depth<={k} "
            "x 6 configurations; one stream per named class/ID with its frame at every length 0..nominal+16 x quitonerror(3) x msgmode(4) x parsebitfield(2). "
            "distinct_nontrivial = distinct (space, class or policy, verdict) classes"
        ),
        assumptions=[
            f"a single call using more than {WATCHDOG_S}s of CPU time is a hang (slowest legitimate case measured: ~4 s)",
            "ACK-ACK, ACK-NAK and CFG-MSG (2-, 3- and 8-byte payloads) referring to every one of the 65,536 (class, ID) pairs, parsed and inspected", "CFG-VALGET / CFG-VALSET / CFG-VALDEL frames with every value 0..255 of the key ID's top byte x 4 group/item patterns x 0..9 value bytes, all modes, both views",
            "every boundary-length frame and every content-refused frame (NMEATypeError, UBXTypeError, UBXMessageError, RTCMTypeError) between every pair of 7 neighbour tokens x 6 configurations",
            "token sequences of <= 2 through a pipe-like stream object (seek/tell exist and raise), a read/readline-only object and a BufferedReader x 10 configurations incl. every single-protocol-excluded mask",
            "runs of 1,100 and 3,000 consecutive discarded messages (rejected, or filtered out by protfilter) followed by one good frame",
            "stream livelock = more than 4*len+16 stream calls (deterministic horizon); socket streams (fixed chunks, every cut, close/timeout): more than 64 recv calls after the end",
        ],
        vacuity=[
            ("parse verdicts ok and ubx-error both occurred", any(k[0] == "parse" and k[2] == "ok" for k in acc.outcomes) and any(k[2] == "ubx-error" for k in acc.outcomes)),
            ("RAISE policy raised a protocol error at least once", any(k[0] in ("stream",) and k[1] == 2 and k[2] != "end" for k in acc.outcomes)),
        ],
    )


if __name__ == "__main__":
    engine.main(PROP, run_tier, replay_case, eval_block)
