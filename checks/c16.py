"""C16 - every declared message type is usable and its fields have distinct names.

Exhaustive walk of every node of the GET/SET/POLL payload tables, UBX_MSGIDS, UBX_CLASSES,
VARIANTS and the configuration database of the working tree against the README grammar and the
attribute-namespace rule; then, for every routed (message, mode), the consequence clause:
a nominal instance can be built and parsed, and no two payload fields share one attribute name.
"""
import numbers

from mc import boot  # noqa: F401
from mc import catalogue as C, construct as K, engine
from mc.refmodel import core as ref, layout as L
from mc.refmodel.layout import GET, SET, POLL
from mc.streams import UBX_ERRORS

import pyubx2
from pyubx2 import UBXMessage, UBXReader, UBX_MSGIDS, UBX_CLASSES
from pyubx2.ubxtypes_core import ATTTYPE
from pyubx2.ubxtypes_configdb import UBX_CONFIG_DATABASE
from pyubx2.ubxvariants import VARIANTS

PROP = "C16"
OWN_PRIVATE = {"_immutable", "_mode", "_payload", "_length", "_checksum", "_parsebf", "_ubxClass", "_ubxID"}
RECOGNISED_BITFIELDS = {"X001", "X002", "X004", "X006", "X008", "X024"}


def valid_type(t):
    if t == "CH":
        return True
    if not (isinstance(t, str) and len(t) == 4 and t[1:].isdigit() and int(t[1:]) > 0):
        return False
    if t[0] not in ATTTYPE:
        return False
    if t[0] == "R" and t not in ("R004", "R008"):
        return False
    return True


def grammar(label, pdict, acc, out):
    """Check one definition; appends (key, detail)."""
    own = set(dir(UBXMessage)) | OWN_PRIVATE
    none_seen = [0]

    def node(d, depth, earlier, top):
        names_here = list(d)
        for pos, (name, v) in enumerate(d.items()):
            acc.transitions += 1
            if not isinstance(name, str) or not name:
                out.append((f"bad_name|{label}", repr(name)))
                continue
            if name in own and depth == 0 and not (isinstance(v, tuple) and not L.is_bitfield_type(v[0])):
                out.append((f"name_collides_with_UBXMessage_attribute|{label}|{name}", name))
            if isinstance(v, tuple):
                if len(v) != 2 or not isinstance(v[1], dict):
                    out.append((f"bad_group_tuple|{label}|{name}", repr(v)[:80]))
                    continue
                numr, sub = v
                if L.is_bitfield_type(numr):
                    acc.extra["bitfields"] += 1
                    if numr not in RECOGNISED_BITFIELDS:
                        out.append((f"bitfield_type_not_recognised|{label}|{name}", numr))
                    bits = 0
                    for fn, ft in sub.items():
                        acc.extra["flags"] += 1
                        acc.transitions += 1
                        if not (isinstance(ft, str) and len(ft) == 4 and ft[0] in "UXIE" and ft[1:].isdigit() and int(ft[1:]) > 0):
                            out.append((f"bad_flag_type|{label}|{fn}", repr(ft)))
                            continue
                        bits += int(ft[1:])
                        if fn in own and depth == 0:
                            out.append((f"name_collides_with_UBXMessage_attribute|{label}|{fn}", fn))
                        earlier.add(fn)
                    if bits > 8 * L.tsize(numr):
                        out.append((f"flags_exceed_bitfield|{label}|{name}", f"{bits} bits in {numr}"))
                    continue
                acc.extra["groups"] += 1
                if isinstance(numr, bool) or not isinstance(numr, (int, str)):
                    out.append((f"bad_group_size|{label}|{name}", repr(numr)))
                elif isinstance(numr, int):
                    if numr <= 0:
                        out.append((f"bad_group_size|{label}|{name}", repr(numr)))
                elif numr == "None":
                    none_seen[0] += 1
                    if none_seen[0] > 1:
                        out.append((f"second_variable_by_size_group|{label}|{name}", ""))
                    if depth > 0 or pos != len(names_here) - 1:
                        out.append((f"variable_by_size_group_not_last_at_top_level|{label}|{name}", f"depth={depth} pos={pos}/{len(names_here)}"))
                else:
                    if numr not in top:
                        out.append((f"group_size_not_an_earlier_top_level_integer|{label}|{name}", f"size attribute {numr!r}"))
                node(sub, depth + 1, earlier, top)
                continue
            acc.extra["attributes"] += 1
            t = v
            if isinstance(v, list):
                if len(v) != 2 or not isinstance(v[1], numbers.Real) or isinstance(v[1], bool) or v[1] == 0:
                    out.append((f"bad_scaled_definition|{label}|{name}", repr(v)))
                    continue
                t = v[0]
            if not valid_type(t):
                out.append((f"invalid_attribute_type|{label}|{name}", repr(t)))
                continue
            if t == "CH" and (len(d) != 1 or depth != 0):
                out.append((f"CH_not_sole_attribute|{label}|{name}", ""))
            if name.startswith("_HP") and name[3:] not in earlier:
                out.append((f"HP_without_base_field|{label}|{name}", ""))
            earlier.add(name)
            if depth == 0 and t != "CH" and t[0] in "UEIL":
                top.add(name)
        return

    # top-level integer attributes and flags (group sizes are looked up by unsuffixed name)
    top = set()

    def collect_top_flags(d):
        for name, v in d.items():
            if isinstance(v, tuple) and L.is_bitfield_type(v[0]):
                pass

    # flags at top level count as size attributes once seen; handled inside node via `top`
    def node_with_flags(d):
        for name, v in d.items():
            if isinstance(v, tuple) and len(v) == 2 and isinstance(v[1], dict) and L.is_bitfield_type(v[0]):
                for fn in v[1]:
                    top.add(fn)  # provisional; order checked by names_before below

    node_with_flags(pdict)
    # order-sensitive: a size attribute must precede its group.  Re-check order explicitly.
    seen = set()

    def order(d, depth):
        for name, v in d.items():
            if isinstance(v, tuple):
                if len(v) != 2 or not isinstance(v[1], dict):
                    continue  # reported as bad_group_tuple by node()
                numr, sub = v
                if L.is_bitfield_type(numr):
                    if depth == 0:
                        seen.update(sub)
                    continue
                if isinstance(numr, str) and numr != "None" and numr not in seen:
                    out.append((f"group_size_defined_after_group|{label}|{name}", f"size attribute {numr!r}"))
                order(sub, depth + 1)
            elif depth == 0:
                seen.add(name)

    node(pdict, 0, set(), top)
    order(pdict, 0)


def namespace(label, e, out):
    """Keyword-addressable names of a nominal instance (2 members per group) must be distinct."""
    pl = C.build_payload(e, lambda x: 2, 2) if e.clsid else None
    if pl is None:
        pl = C.build_payload(e, lambda x: 1, 1) if e.clsid else None
    if pl is None:
        return 0
    try:
        w = L.Walk(e.pdict, pl, True, L.special_of(e.mode, e.clsid) if e.clsid else None)
    except Exception as ex:  # noqa: BLE001
        return 0
    names = {}
    for f in w.fields:
        nm = f.name
        if nm.startswith("_HP"):
            continue
        names.setdefault(nm, []).append(f)
    for nm, fs in names.items():
        if len(fs) > 1:
            kinds = "+".join(sorted({f.kind for f in fs}))
            out.append((f"duplicate_attribute_name|{label}|{L_base(nm)}|{kinds}", f"{nm} names {len(fs)} fields: {fs}"))
    return len(w.fields)


def L_base(name):
    from mc.parsecheck import L_base as lb
    return lb(name)


_C17K = []


def c17_known():
    """(label, payload length class) of the open C17 findings in known_findings.json."""
    if not _C17K:
        ks = set()
        for k in engine.load_known("C17"):
            parts = k.split("|")
            if parts[0] == "setpoll_resolves_wrong_mode" and len(parts) >= 3:
                ks.add((parts[1], parts[2].replace("len=", "")))
        _C17K.append(ks)
    return _C17K[0]


def consequence(e, pbf, counts, out):
    """Nominal build + parse in the same mode; one attribute per distinct named field."""
    label = e.label
    kwroute = K.route_kwargs(e)
    try:
        if kwroute is None:
            pl = C.build_payload(e, lambda x: counts, counts)
            msg = K.build_payload_route(e, pl, pbf)
        else:
            extra = {n: counts for n in C._size_fields(e.pdict)}
            msg = K.build_kw(e, extra, pbf)
        frame = msg.serialize()
    except Exception as ex:  # noqa: BLE001
        out.append((f"nominal_instance_cannot_be_built|{label}|pbf={int(pbf)}|{type(ex).__name__}", str(ex)))
        return
    try:
        m2 = UBXReader.parse(frame, msgmode=e.mode, parsebitfield=pbf)
    except Exception as ex:  # noqa: BLE001
        out.append((f"nominal_instance_cannot_be_parsed|{label}|pbf={int(pbf)}|{type(ex).__name__}", str(ex)))
        return
    payload = frame[6:-2]
    # two payload fields are never exposed as one and the same mutable object
    lists = [(k, v) for k, v in msg.__dict__.items() if isinstance(v, (list, bytearray, dict))]
    if len({id(v) for _, v in lists}) < len(lists):
        out.append((f"two_fields_share_one_mutable_value|{label}|pbf={int(pbf)}", str([k for k, _ in lists])[:120]))
    # a SET / POLL definition is also usable through the documented auto-detecting mode (msgmode=SETPOLL): the nominal
    # instance must come back in its own mode (the cases the SETPOLL heuristic is known to mis-resolve are C17's findings)
    if e.mode in (SET, POLL) and (label, "0" if not payload else ("1-2" if len(payload) <= 2 else "n")) not in c17_known():
        try:
            m5 = UBXReader.parse(frame, msgmode=3, parsebitfield=pbf)
            if m5.msgmode != e.mode or [k for k in m5.__dict__ if not k.startswith("_")] != [k for k in m2.__dict__ if not k.startswith("_")]:
                out.append((f"nominal_instance_unusable_under_SETPOLL|{label}|pbf={int(pbf)}", f"mode {m5.msgmode}, {len(m5.__dict__)} attributes"))
        except Exception as ex:  # noqa: BLE001
            out.append((f"nominal_instance_unusable_under_SETPOLL|{label}|pbf={int(pbf)}|{type(ex).__name__}", str(ex)))
    # every declared attribute can be SUPPLIED by name: the nominal instance rebuilt from all of its own attributes
    # (definitions with high-precision companions are left to C03: their parsed value merges two fields)
    if kwroute is not None and len(payload) > 0 and not any(str(k).startswith("_HP") for k in e.pdict):
        attrs = {k: v for k, v in m2.__dict__.items() if not k.startswith("_")}
        try:
            m4 = UBXMessage(e.clsid[0:1], e.clsid[1:2], e.mode, parsebitfield=pbf, **attrs)
            if m4.serialize() != frame:
                out.append((f"nominal_instance_not_rebuilt_from_its_attributes|{label}|pbf={int(pbf)}", f"{m4.serialize().hex()[:60]} vs {frame.hex()[:60]}"))
        except Exception as ex:  # noqa: BLE001
            out.append((f"declared_attribute_cannot_be_supplied|{label}|pbf={int(pbf)}|{type(ex).__name__}", str(ex)))
    # the same instance laid out by the reference (group counts written into the payload): one attribute per named field
    try:
        pl2 = C.build_payload(e, lambda x: max(counts, 1), max(counts, 1), lambda i: (3 * i + 1) % 200)
        if pl2:
            w2, key2 = C.walk_frame(e.mode, e.clsid, pl2, pbf)
            if w2 is not None and key2 == e.key and not w2.short and w2.off == len(pl2) and w2.cfgitems is None:
                m3 = UBXReader.parse(ref.frame(e.clsid[0], e.clsid[1], pl2), msgmode=e.mode, parsebitfield=pbf)
                nf = sum(1 for f in w2.fields if f.exposed and not f.name.startswith("_HP"))
                na = sum(1 for k in m3.__dict__ if not k.startswith("_"))
                if na != nf:
                    out.append((f"fields_hidden_under_one_name|{label}|pbf={int(pbf)}", f"payload instance: {nf} named fields, {na} attributes"))
    except Exception as ex:  # noqa: BLE001
        out.append((f"nominal_instance_cannot_be_parsed|{label}|pbf={int(pbf)}|{type(ex).__name__}", f"payload instance: {ex}"))
    if m2.identity != C.identity_of(e.clsid, payload):
        out.append((f"nominal_instance_identity|{label}", f"{m2.identity}"))
    if len(payload) == 0:
        return
    w, key = C.walk_frame(e.mode, e.clsid, payload, pbf)
    if w is None or key != e.key:
        out.append((f"nominal_instance_selects_other_definition|{label}", f"{key}"))
        return
    nfields = sum(1 for f in w.fields if f.exposed and not f.name.startswith("_HP"))
    nattrs = sum(1 for k in m2.__dict__ if not k.startswith("_"))
    if w.cfgitems is None and nattrs != nfields:
        out.append((f"fields_hidden_under_one_name|{label}|pbf={int(pbf)}", f"{nfields} named fields, {nattrs} attributes"))


def check_tables(acc, out):
    names = set(UBX_MSGIDS.values())
    for b, n in UBX_MSGIDS.items():
        acc.transitions += 1
        if not (isinstance(b, bytes) and len(b) in (2, 3) and isinstance(n, str) and n):
            out.append((f"bad_msgid_entry|{b!r}", repr(n)))
            continue
        if b[0:1] not in UBX_CLASSES:
            out.append((f"msgid_class_unknown|{n}", b.hex()))
        elif len(b) == 2 and not n.startswith(UBX_CLASSES[b[0:1]].split("-")[0][:3]) and UBX_CLASSES[b[0:1]] not in n:
            pass
    acc.extra["msgids"] = len(UBX_MSGIDS)
    for mode, tab in VARIANTS.items():
        for cid, fn in tab.items():
            acc.transitions += 1
            if mode not in (GET, SET, POLL) or not callable(fn):
                out.append((f"bad_variant_entry|{mode}|{cid!r}", ""))
            if cid not in {k[0:2] for k in UBX_MSGIDS}:
                out.append((f"variant_for_unknown_msgid|{cid.hex()}", ""))
    ids = {}
    for name, ent in UBX_CONFIG_DATABASE.items():
        acc.transitions += 1
        if not (isinstance(ent, tuple) and len(ent) == 2 and isinstance(ent[0], int) and valid_type(ent[1])):
            out.append((f"bad_configdb_entry|{name}", repr(ent)))
            continue
        kid, t = ent
        width = {1: 1, 2: 1, 3: 2, 4: 4, 5: 8}.get((kid >> 28) & 7)
        if width is None or width != L.tsize(t) or kid >> 31:
            out.append((f"configdb_type_width_mismatch|{name}", f"{hex(kid)} {t}"))
        ids.setdefault(kid, []).append(name)
    acc.extra["configdb_keys"] = len(UBX_CONFIG_DATABASE)
    # consequence for the configuration database: every declared key is usable (a CFG-VALSET / CFG-VALGET holding
    # it exposes it under its own name) and two different keys of one message never share an attribute name
    first = {}
    for name, (kid, t) in ((n, e) for n, e in UBX_CONFIG_DATABASE.items() if isinstance(e, tuple) and len(e) == 2):
        first.setdefault(kid, name)
    kids = list(first)
    WID = {1: 1, 2: 1, 3: 2, 4: 4, 5: 8}
    for j, kid in enumerate(kids):
        other = kids[(j + 1) % len(kids)]
        body = b"".join(k.to_bytes(4, "little") + bytes([1] + [0] * (WID.get((k >> 28) & 7, 1) - 1)) for k in (kid, other))
        for mode, cid, hdr in ((SET, (0x06, 0x8A), b"\x00\x01\x00\x00"), (GET, (0x06, 0x8B), b"\x01\x00\x00\x00")):
            acc.transitions += 1
            try:
                m = UBXReader.parse(ref.frame(cid[0], cid[1], hdr + body), msgmode=mode)
                got = [k for k in m.__dict__ if k.startswith("CFG_")]
            except Exception as ex:  # noqa: BLE001
                out.append((f"declared_config_key_unusable|{type(ex).__name__}", f"{first[kid]}: {ex}"))
                continue
            if got != [first[kid], first[other]]:
                why = "two_keys_under_one_name" if len(got) < 2 else "exposed_under_another_name"
                out.append((f"declared_config_key_unusable|{why}", f"{first[kid]} + {first[other]} parsed as {got}"))
    for kid, ns in ids.items():
        if len(ns) > 1:
            acc.note("configdb_aliases", f"{hex(kid)}:{'/'.join(ns)}")
            if len({UBX_CONFIG_DATABASE[n][1] for n in ns}) > 1:
                out.append((f"configdb_alias_types_differ|{hex(kid)}", str(ns)))


def replay_case(case):
    out = []
    acc = engine.Acc()
    if case["kind"] == "tables":
        check_tables(acc, out)
        return out
    if case["kind"] == "after_failures":
        return engine.replay_block(("after_failures",)) if engine._EVAL is not None else (after_failures(acc, out) or out)
    if case["kind"] == "vargroups":
        return engine.replay_block(("vargroups",)) if engine._EVAL is not None else (vargroup_sequence(acc, out) or out)
    e = [x for x in C.entries() if x.label == case["entry"]][0]
    grammar(e.label, e.pdict, acc, out)
    if e.routed and not C.invalid_types(e.pdict):
        namespace(e.label, e, out)
        for pbf in (True, False):
            for c in case.get("counts", (1,)):
                consequence(e, pbf, c, out)
    return out


def vargroup_sequence(acc, out):
    """Every definition with a variable-by-size group, walked GET -> SET -> POLL in ONE process: two members
    sent, two distinctly named copies of each member must come back (a definition must stay usable whatever
    other definition of the same message was used before)."""
    for e in C.entries():
        if not e.routed or C.invalid_types(e.pdict):
            continue
        if not any(isinstance(v, tuple) and v[0] == "None" for v in e.pdict.values()):
            continue
        pl = C.build_payload(e, lambda x: 1, 2, lambda i: (5 * i + 3) % 250)
        if not pl:
            continue
        try:
            w, key = C.walk_frame(e.mode, e.clsid, pl, True)
            if w is None or key != e.key or w.short or w.off != len(pl) or w.cfgitems is not None:
                continue
            m = UBXReader.parse(ref.frame(e.clsid[0], e.clsid[1], pl), msgmode=e.mode)
            nf = sum(1 for f in w.fields if f.exposed and not f.name.startswith("_HP"))
            na = sum(1 for k in m.__dict__ if not k.startswith("_"))
            acc.transitions += 1
            if na != nf:
                out.append((f"declared_definition_unusable_after_other_definitions|{e.label}", f"{nf} named fields, {na} attributes"))
        except Exception as ex:  # noqa: BLE001
            out.append((f"declared_definition_unusable_after_other_definitions|{e.label}|{type(ex).__name__}", str(ex)))


def after_failures(acc, out):
    """Operations that FAIL part-way through a definition (payload cut inside the last group member; a value
    the second group member cannot take), for every definition with a group, all in ONE process; afterwards
    every declared definition must still be usable (nominal build + parse, one attribute per named field)."""
    from mc import failops
    ents = [e for e in C.entries() if e.routed and not C.invalid_types(e.pdict)]
    nfail = failops.run_failing_operations()
    acc.extra["failing_operations"] += nfail
    for e in ents:
        sub = []
        for pbf in (True, False):
            consequence(e, pbf, 1, sub)
        acc.transitions += 2
        out += [("after_failed_operations|" + k, d) for k, d in sub]


def eval_block(block, acc):
    ents = C.entries()
    if block[0] == "after_failures":
        out = []
        after_failures(acc, out)
        acc.evaluations += 1
        for key, detail in out:
            acc.violation(key, {"kind": "after_failures"}, detail)
        return
    if block[0] == "vargroups":
        out = []
        vargroup_sequence(acc, out)
        acc.evaluations += 1
        for key, detail in out:
            acc.violation(key, {"kind": "vargroups"}, detail)
        return
    if block[0] == "tables":
        out = []
        check_tables(acc, out)
        for key, detail in out:
            acc.violation(key, {"kind": "tables"}, detail)
        acc.evaluations += 1
        return
    counts = block[2]
    for i in block[1]:
        e = ents[i]
        out = []
        grammar(e.label, e.pdict, acc, out)
        acc.evaluations += 1
        acc.states.add(e.label)
        if not e.routed and (e.mode, e.key) not in C.UNROUTED and e.label not in C.UNPROCESSABLE:
            # declared in a payload table, but no message ID, variant or alias leads to it: it can neither be built nor parsed
            out.append((f"declared_message_has_no_message_id|{e.label}", f"{e.key!r} is a key of the payload table but not a name in UBX_MSGIDS"))
        elif not e.routed:
            acc.note("unrouted_definitions(O10)", e.label)
        elif not C.invalid_types(e.pdict):
            acc.extra["fields_walked"] += namespace(e.label, e, out)
            for pbf in (True, False):
                for c in counts:
                    consequence(e, pbf, c, out)
                    acc.evaluations += 1
        acc.outcomes[(e.mode, "clean" if not out else "defective")] += 1
        for key, detail in out:
            acc.violation(key, {"kind": "entry", "entry": e.label, "counts": list(counts)}, detail)
    if len(acc.samples) < 1:
        acc.sample({"entry": ents[block[1][0]].label, "definition": repr(ents[block[1][0]].pdict)[:200]})


def run_tier(tier, t0):
    q = tier == "quick"
    ents = C.entries()
    counts = (1, 2) if q else (0, 1, 2, 3)
    idx = list(range(len(ents)))
    blocks = [("entries", idx[i::32], counts) for i in range(32)] + [("tables",), ("vargroups",), ("after_failures",)]
    acc = engine.sweep(blocks, eval_block)
    engine.finish(
        PROP, tier, acc, t0, replay_case,
        rule=(
            "every node of every entry of UBX_PAYLOADS_GET/SET/POLL, UBX_MSGIDS, UBX_CLASSES, VARIANTS, UBX_CONFIG_DATABASE checked against the README grammar + namespace rule; "
            f"for every routed (message, mode): nominal build (keyword route, or payload route for the pinned payload-only list) and parse with group counts {counts} x both bitfield views. "
            "states = definitions walked; transitions = table nodes visited; distinct_nontrivial = (mode, clean/defective) classes"
        ),
        assumptions=["grammar as documented in README §Extensibility; group sizes are looked up by unsuffixed name, so they must be top-level integers/flags", "entries no API route reaches (O10) are grammar-checked only", "usability is re-checked in one process after every variable-by-size definition has been used in GET, SET, POLL order, and after a sweep of operations that fail inside a group (payload cut inside the last member; a value the second member cannot take) on every definition with a group"],
        vacuity=[
            ("all table entries walked", len(acc.states) == len(ents)),
            ("attributes, flags and groups were visited", acc.extra["attributes"] > 2000 and acc.extra["flags"] > 1000 and acc.extra["groups"] > 90),
        ],
        exhaustive=True,
        extra_cov={"nodes": {k: acc.extra[k] for k in ("attributes", "bitfields", "flags", "groups", "msgids", "configdb_keys")}},
    )


if __name__ == "__main__":
    engine.main(PROP, run_tier, replay_case, eval_block)
