"""C13 - messages are immutable and parsing/generating has no side effects.

(a) immutability: for one message per routed definition (both bitfield views), null-payload and
    nominal messages: every attribute name in dir(msg) + __dict__ + fresh names x {setattr,
    delattr} must raise UBXMessageError and leave serialization and attributes unchanged;
(b) histories: explicit-state search over the real functions - state = deep digest of every
    data object reachable from the globals of all pyubx2 modules + bytes written to fd 1/2 +
    results of a probe set; every event of an operation alphabet must be a self-loop; all
    histories of length 2 (3 on a sub-alphabet) must leave the probe results unchanged;
(c) schedules: pairs (and triples) of library calls that collide on the same definitions run as
    real threads under a cooperative scheduler with every preemption placement up to a bound;
    each thread's result must equal its sequential result.
"""
import hashlib
import io
import itertools
import os
import sys
import tempfile
import types

from mc import boot  # noqa: F401
from mc import catalogue as C, construct as K, engine, streams, threads
from mc.refmodel import core as ref, layout as L
from mc.refmodel.layout import GET, SET, POLL

import pyubx2
from pyubx2 import UBXMessage, UBXReader
from pyubx2 import ubxhelpers as H
import pyubx2.exceptions as ube

PROP = "C13"


# --------------------------------------------------------------------------------------
# (b) state digest
# --------------------------------------------------------------------------------------
TABLE_MODULES = ("pyubx2.ubxtypes_", "pyubx2.ubxvariants")
TABLE_NAMES = [None]


def snapshot_table_names():
    """(module, global) pairs that count as tables: public globals of the table modules that exist at
    import time and are not empty containers."""
    names = set()
    for name, m in sys.modules.items():
        if name.startswith(TABLE_MODULES):
            for k, v in vars(m).items():
                if k.startswith("_"):
                    continue
                if isinstance(v, (dict, list, set)) and len(v) == 0:
                    continue
                names.add((name, k))
    TABLE_NAMES[0] = names


def module_digest(scope="tables"):
    """Digest of the data reachable from module globals of pyubx2.  scope='tables': the shared
    message-definition / configuration tables and the variant selectors (what the property says must
    stay untouched); scope='other': every other pyubx2 module (reader, message, helpers, wrapper) -
    a change there is reported in the evidence, not as a violation (a cache is legitimate as long as
    results do not change, which the history differential decides)."""
    h = hashlib.blake2b(digest_size=16)
    seen = {}
    nodes = [0]

    def feed(x):
        h.update(x if isinstance(x, bytes) else x.encode("utf-8", "backslashreplace"))

    def walk(o, depth=0):
        nodes[0] += 1
        oid = id(o)
        if isinstance(o, (int, float, str, bytes, bool, type(None), complex)):
            feed(f"{type(o).__name__}:{o!r};")
            return
        if oid in seen:
            feed(f"@{seen[oid]};")
            return
        seen[oid] = len(seen)
        if isinstance(o, dict):
            feed("{")
            for k, v in o.items():  # insertion order is state too
                walk(k, depth + 1)
                feed(":")
                walk(v, depth + 1)
            feed("}")
        elif isinstance(o, (list, tuple)):
            feed("[" if isinstance(o, list) else "(")
            for v in o:
                walk(v, depth + 1)
            feed("]")
        elif isinstance(o, (set, frozenset)):
            feed("s[")
            for v in sorted(o, key=repr):
                walk(v, depth + 1)
            feed("]")
        elif isinstance(o, types.FunctionType):
            feed(f"fn:{o.__module__}.{o.__qualname__}:")
            feed(o.__code__.co_code)
            walk(o.__defaults__, depth + 1)
            walk(o.__kwdefaults__, depth + 1)
            walk(o.__dict__, depth + 1)
        elif isinstance(o, type):
            feed(f"class:{o.__module__}.{o.__qualname__}")
            if (o.__module__ or "").startswith("pyubx2"):
                for k in sorted(vars(o)):
                    if k in ("__dict__", "__weakref__"):
                        continue
                    feed(k)
                    v = vars(o)[k]
                    if isinstance(v, (staticmethod, classmethod)):
                        v = v.__func__
                    if isinstance(v, property):
                        for g in (v.fget, v.fset, v.fdel):
                            walk(g, depth + 1)
                    else:
                        walk(v, depth + 1)
        elif isinstance(o, types.ModuleType):
            feed(f"module:{o.__name__};")
        else:
            feed(f"obj:{type(o).__module__}.{type(o).__qualname__};")
            d = getattr(o, "__dict__", None)
            if isinstance(d, dict) and (type(o).__module__ or "").startswith("pyubx2"):
                walk(d, depth + 1)

    for name in sorted(sys.modules):
        if name == "pyubx2" or name.startswith("pyubx2."):
            is_table = name.startswith(TABLE_MODULES)
            if (scope == "tables") != is_table:
                continue
            m = sys.modules[name]
            feed(f"M:{name}")
            for k in sorted(vars(m)):
                if k in ("__builtins__", "__cached__", "__loader__", "__spec__"):
                    continue
                if scope == "tables":
                    # the tables are the public, non-empty containers the modules define at import;
                    # private helpers and lazily filled (initially empty) lookup caches are not tables
                    if k.startswith("_"):
                        continue
                    if TABLE_NAMES[0] is not None and (name, k) not in TABLE_NAMES[0]:
                        continue
                feed(k)
                walk(vars(m)[k])
    return h.hexdigest(), nodes[0]


class FdCapture:
    """Capture everything written to file descriptors 1 and 2."""

    def __enter__(self):
        sys.stdout.flush()
        sys.stderr.flush()
        self.files = [tempfile.TemporaryFile(), tempfile.TemporaryFile()]
        self.saved = [os.dup(1), os.dup(2)]
        os.dup2(self.files[0].fileno(), 1)
        os.dup2(self.files[1].fileno(), 2)
        return self

    def __exit__(self, *a):
        sys.stdout.flush()
        sys.stderr.flush()
        os.dup2(self.saved[0], 1)
        os.dup2(self.saved[1], 2)
        os.close(self.saved[0])
        os.close(self.saved[1])
        self.out = []
        for f in self.files:
            f.seek(0)
            self.out.append(f.read())
            f.close()


CLSID_OF = {}
FULL_LABELS = set()


def _inspect(m):
    return (str(m), repr(m), m.identity, m.serialize().hex(), m.length, m.msgmode)


def build_events():
    """Operation alphabet: name -> callable returning a comparable result (exceptions are results)."""
    ev = {}
    ents = [e for e in C.entries() if e.routed and not C.invalid_types(e.pdict)]
    variant_keys = set(C.VARIANT_ROUTES) | set(C.ALIAS_ROUTES) | set(C.BASE_PINS)
    chosen = [e for e in ents if (e.mode, e.key) in variant_keys]
    for lab in ("GET:NAV-PVT", "GET:NAV-SAT", "GET:MON-SPAN", "GET:MON-COMMS", "GET:CFG-VALGET", "SET:CFG-VALSET", "SET:ESF-MEAS", "GET:ESF-MEAS",
                "SET:MGA-GPS-EPH", "SET:MGA-INI-TIME-UTC", "GET:MGA-ACK-DATA0", "GET:NAV-HPPOSLLH", "SET:CFG-MSG", "POLL:CFG-MSG", "GET:ACK-ACK",
                "GET:INF-NOTICE", "GET:MON-VER", "SET:CFG-NVS", "POLL:CFG-TP5", "GET:RXM-SFRBX"):
        chosen += [e for e in ents if e.label == lab]
    chosen_labels = {e.label for e in chosen}
    FULL_LABELS.update(chosen_labels)
    for e in ents:
        full = e.label in chosen_labels
        pl = C.build_payload(e, lambda x: 2, 2, lambda i: (7 * i + 1) % 251)
        if pl is None:
            continue
        if L.special_of(e.mode, e.clsid) == "cfgval":
            pl = pl[:4] + (0x20910001).to_bytes(4, "little") + b"\x05" + (0x40520001).to_bytes(4, "little") + b"\x00\xc2\x01\x00"
        fr = ref.frame(e.clsid[0], e.clsid[1], pl)
        for pbf in (1, 0) if full else (1,):
            ev[f"parse:{e.label}:pbf={pbf}"] = (lambda fr=fr, mode=e.mode, pbf=pbf: _inspect(UBXReader.parse(fr, msgmode=mode, parsebitfield=pbf)))
        if K.route_kwargs(e) is not None:
            ev[f"build:{e.label}"] = (lambda e=e: _inspect(K.build_kw(e, {n: 2 for n in C._size_fields(e.pdict)})))
            # the same construction with EQUAL values of another type (2.0 for 2; -0.0 for the default 0.0 of a float
            # field): whatever the verdict for such a value is, it must not depend on what was built before
            if C._size_fields(e.pdict):
                ev[f"buildf:{e.label}"] = (lambda e=e: _inspect(K.build_kw(e, {n: 2.0 for n in C._size_fields(e.pdict)})))
            fl = [k for k, v in e.pdict.items() if isinstance(v, str) and v in ("R004", "R008")]
            if fl:
                ev[f"buildz:{e.label}"] = (lambda e=e, fl=fl: _inspect(K.build_kw(e, {fl[0]: -0.0})))
        if full:
            ev[f"setpoll:{e.label}"] = (lambda fr=fr: _inspect(UBXReader.parse(fr, msgmode=3)))
        CLSID_OF[e.label] = e.clsid.hex()
        if L.special_of(e.mode, e.clsid) != "cfgval":
            # the same definition with other field CONTENT: every bit-0 flag set / every bit set (content that
            # switches on an optional path of the library, e.g. a 'valid' flag, shows only with such values)
            for tag, byte in (("01", 1), ("ff", 0xFF)):
                plf = C.build_payload(e, lambda x: 2, 2, lambda i, byte=byte: byte)
                if plf is not None and plf != pl:
                    frf = ref.frame(e.clsid[0], e.clsid[1], plf)
                    ev[f"parse:{e.label}:fill={tag}"] = (lambda frf=frf, mode=e.mode: _inspect(UBXReader.parse(frf, msgmode=mode)))
        if any(isinstance(v, tuple) and v[0] == "None" for v in e.pdict.values()) and L.special_of(e.mode, e.clsid) is None:
            # a payload whose variable-by-size part is not a whole number of members
            rag = ref.frame(e.clsid[0], e.clsid[1], pl + b"\x07")
            ev[f"parse:{e.label}:ragged"] = (lambda rag=rag, mode=e.mode: _inspect(UBXReader.parse(rag, msgmode=mode)))
    ev["config_set"] = lambda: _inspect(UBXMessage.config_set(1, 0, [("CFG_UART1_BAUDRATE", 9600), (0x40530001, 115200)]))
    ev["config_del"] = lambda: _inspect(UBXMessage.config_del(2, 1, ["CFG_UART1_BAUDRATE", 0x40530001]))
    ev["config_poll"] = lambda: _inspect(UBXMessage.config_poll(0, 0, ["CFG_UART1_BAUDRATE", 0x40530001]))
    # configuration transactions: every (layers, transaction state) of both helpers - a message is a value, the
    # helper keeps no session (start / ongoing / commit are told to the RECEIVER, not remembered by the library)
    for lay in (1, 2):
        for txn in (0, 1, 2, 3):
            ev[f"cfgtxn:set:L{lay}:T{txn}"] = lambda lay=lay, txn=txn: _inspect(UBXMessage.config_set(lay, txn, [("CFG_UART1_BAUDRATE", 9600)]))
            ev[f"cfgtxn:del:L{lay}:T{txn}"] = lambda lay=lay, txn=txn: _inspect(UBXMessage.config_del(lay, txn, [0x40530001]))
    def _mutate_nominal_list():
        m = UBXMessage("MON", "MON-SPAN", GET, version=0, numRfBlocks=1)
        lst = m.spectrum_01  # a list attribute: the message is immutable, the list object is not
        lst[0] = 7
        lst[-1] = 9
        return "mutated a list attribute of a default-built message"

    ev["user_mutates_list_attribute"] = _mutate_nominal_list
    CLSID_OF["x:user_mutates_list_attribute"] = "0a31"
    # the plain-text lookups of __str__ (class / message / GNSS names) with values the tables do not know
    ev["print:ACK-ACK:unknown_class"] = lambda: _inspect(UBXReader.parse(ref.frame(0x05, 0x01, b"\x99\x01")))
    ev["print:ACK-NAK:unknown_class"] = lambda: _inspect(UBXReader.parse(ref.frame(0x05, 0x00, b"\x98\x77")))
    ev["print:CFG-MSG:unknown_class"] = lambda: _inspect(UBXReader.parse(ref.frame(0x06, 0x01, b"\x97\x01"), msgmode=POLL))
    ev["print:CFG-MSG:unknown_id"] = lambda: _inspect(UBXReader.parse(ref.frame(0x06, 0x01, b"\x01\xee"), msgmode=POLL))
    ev["print:NAV-SAT:unknown_gnss"] = lambda: _inspect(UBXReader.parse(ref.frame(0x01, 0x35, bytes([1, 2, 3, 4, 1, 1, 0, 0, 0x63]) + bytes(11))))
    ev["parse:unknown_class_99"] = lambda: _inspect(UBXReader.parse(ref.frame(0x99, 0x01, b"abc")))
    ev["parse:unknown_class_98"] = lambda: _inspect(UBXReader.parse(ref.frame(0x98, 0x77, b"abc")))
    ev["parse:unknown_class_97"] = lambda: _inspect(UBXReader.parse(ref.frame(0x97, 0x01, b"abc")))
    ev["null_payload"] = lambda: _inspect(UBXMessage("CFG", "CFG-MSG", POLL))
    ev["unknown_get"] = lambda: _inspect(UBXReader.parse(ref.frame(0x99, 0x88, b"abc")))
    # helpers
    import datetime
    ev["helpers"] = lambda: (
        H.att2idx("svid_06"), H.att2name("svid_06"), H.calc_checksum(b"abc"), H.isvalid_checksum(ref.frame(5, 1, b"\x06\x01")),
        H.itow2utc(387092000).isoformat(), H.utc2itow(datetime.datetime(2024, 2, 8, 11, 31, 14)), H.gpsfix2str(3), H.dop2str(1.5), H.gnss2str(2),
        H.key_from_val({1: 2}, 2), H.get_bits(b"\x89", 192), H.val2bytes(25, "U004"), H.bytes2val(b"\x19\x00", "U002"), H.nomval("X004"),
        H.msgclass2bytes(6, 1), H.msgstr2bytes("CFG", "CFG-MSG"), H.cfgname2key("CFG_NMEA_PROTVER"), H.cfgkey2name(0x20930001), H.cfgkey2name(0x10fe0001),
        H.protocol(b"\xb5\x62"), H.hextable(b"abcdefghij"), H.cel2cart(34, 128), H.escapeall(b"ab"), H.val2sphp(100.123456789), H.getinputmode(ref.frame(6, 1, b"")),
        H.val2twoscomp(-5, "U008"), H.val2signmag(-5, "U008"), H.attsiz("U004"), H.atttyp("U004"),
    )
    ev["process_monver"] = lambda: H.process_monver(UBXReader.parse(ref.frame(0x0A, 0x04, b"ROM CORE 3.01 (107888)".ljust(30, b"\0") + b"00080000".ljust(10, b"\0") + b"FWVER=SPG 3.01".ljust(30, b"\0"))))
    # failing calls (every UBX error path, incl. errors raised mid-walk)
    fails = {
        "fail:bad_checksum": lambda: UBXReader.parse(streams.TOKENS["Ubad"][2]),
        "fail:bad_header": lambda: UBXReader.parse(b"\xb5\x63" + streams.TOKENS["Uack"][2][2:]),
        "fail:bad_length": lambda: UBXReader.parse(streams.TOKENS["Uack"][2][:-3] + b"\x00" + streams.TOKENS["Uack"][2][-3:]),
        "fail:unknown_in_set": lambda: UBXReader.parse(streams.TOKENS["Uunk"][2], msgmode=SET),
        "fail:bad_mode": lambda: UBXReader.parse(streams.TOKENS["Uack"][2], msgmode=7),
        "fail:midwalk_struct": lambda: UBXReader.parse(ref.frame(0x01, 0x07, bytes(range(50)))),
        "fail:midwalk_array": lambda: UBXReader.parse(ref.frame(0x0A, 0x31, b"\x00\x01" + bytes(100))),
        "fail:kw_type": lambda: UBXMessage("CFG", "CFG-MSG", SET, msgClass="x"),
        "fail:kw_overflow": lambda: UBXMessage("CFG", "CFG-MSG", SET, msgClass=999),
        "fail:kw_group_midwalk": lambda: UBXMessage("NAV", "NAV-SAT", GET, numSvs=2, gnssId_01=1, gnssId_02="x"),
        "fail:kw_flag": lambda: UBXMessage("ESF", "ESF-ALG", GET, autoMntAlgOn=5),
        "fail:unknown_name": lambda: UBXMessage("CFG", "CFG-XXX", SET),
        "fail:bad_msgmode": lambda: UBXMessage("CFG", "CFG-MSG", 9),
        "fail:mga_no_type": lambda: UBXMessage("MGA", "MGA-GPS-EPH", SET, type=1, svId=1),
        "fail:valget_kw": lambda: UBXMessage("CFG", "CFG-VALGET", GET, version=0),
        "fail:config_too_many": lambda: UBXMessage.config_del(0, 0, ["CFG_UART1_BAUDRATE"] * 65),
        "fail:config_bad_key": lambda: UBXMessage.config_set(0, 0, [("FOO_BAR", 1)]),
        "fail:config_bad_val": lambda: UBXMessage.config_set(0, 0, [("CFG_UART1_BAUDRATE", "x")]),
        "fail:immutable": lambda: setattr(UBXMessage("CFG", "CFG-MSG", POLL, msgClass=1, msgID=2), "msgClass", 3),
        "fail:reader_mode": lambda: UBXReader(io.BytesIO(b""), msgmode=9),
    }
    for k, f in fails.items():
        ev[k] = f
    # stream reads under every error policy (handler given, so nothing is logged - O12)
    mixed = streams.seq_bytes(("Uack", "N1", "Rbad", "Ubad", "fb562", "R1", "Nbad", "Uunk", "Uinf"))
    for q in (0, 1, 2):
        for mm in (0, 1, 3):
            ev[f"read:q={q}:mode={mm}"] = (lambda q=q, mm=mm: _run_stream(mixed, q, mm))
    return ev


def _run_stream(data, q, mm):
    r = streams.run_reader(data, dict(quitonerror=q, handler=(q == 1), msgmode=mm))
    return ([(raw.hex(), streams.sig(p)) for raw, p in r.items], [streams.exc_sig(e) for e in r.errors], streams.exc_sig(r.raised))


def run_event(fn):
    try:
        return ("ok", repr(fn()))
    except Exception as e:  # noqa: BLE001
        return ("exc", type(e).__name__, str(e))


_EVENTS = None


def events():
    global _EVENTS
    if _EVENTS is None:
        _EVENTS = build_events()
    return _EVENTS


def probe_names(ev):
    base = [k for k in ev if k.startswith(("parse:", "build:", "config_", "helpers", "fail:kw", "fail:bad_checksum", "read:q=1")) and k.split(":pbf")[0].split(":", 1)[-1] in FULL_LABELS | {"helpers"}][:52]
    return base + [k for k in ev if k.startswith(("parse:unknown_class", "print:"))]


# --------------------------------------------------------------------------------------
# (b) histories: every history is built from the pristine import state in a forked child
# --------------------------------------------------------------------------------------
import pickle


def in_fork(fn, *args):
    """Run fn(*args) in a forked child of this (pristine) process and return its picklable result.
    The caller never applies a library event itself, so every fork starts from the import state."""
    r, w = os.pipe()
    pid = os.fork()
    if pid == 0:
        try:
            os.close(r)
            try:
                out = ("ok", fn(*args))
            except BaseException as e:  # noqa: BLE001
                import traceback
                out = ("err", traceback.format_exc())
            with os.fdopen(w, "wb") as f:
                pickle.dump(out, f)
        finally:
            os._exit(0)
    os.close(w)
    with os.fdopen(r, "rb") as f:
        data = f.read()
    os.waitpid(pid, 0)
    st, val = pickle.loads(data)
    if st != "ok":
        raise engine.Broken(f"forked history failed:\n{val}")
    return val


def run_history(hist, digest=True):
    """(child) apply the events of hist in order; returns per-event results / fd output and the final digests."""
    import logging
    # behave like an application that has not configured logging: the harness's own root handler would
    # otherwise swallow records that the library's loggers send to stderr via logging.lastResort
    logging.getLogger().removeHandler(streams.LOGCAP)
    ev = events()
    results, fds = [], []
    for n in hist:
        with FdCapture() as cap:
            res = run_event(ev[n])
        results.append(res)
        fds.append((cap.out[0][:120], cap.out[1][:120]))
    out = {"results": results, "fd": fds}
    if digest:
        out["tables"], out["nodes"] = module_digest("tables")
        out["other"] = module_digest("other")[0] if len(hist) == 1 else None
    return out


_REF = {}


def ref_result(name):
    """Result of an event applied alone to the pristine import state."""
    if name not in _REF:
        _REF[name] = in_fork(run_history, (name,), False)["results"][0]
    return _REF[name]


def judge_history(hist, acc, digest=True):
    out = in_fork(run_history, tuple(hist), digest)
    acc.evaluations += 1
    acc.transitions += len(hist)
    viol = []
    for i, n in enumerate(hist):
        short = n.split(":pbf")[0]
        if out["fd"][i][0] or out["fd"][i][1]:
            viol.append((f"writes_to_stdout_or_stderr|{short}", f"after {list(hist[:i])}: stdout={out['fd'][i][0]!r} stderr={out['fd'][i][1]!r}"))
        want = ref_result(n)
        if out["results"][i] != want:
            prev = hist[i - 1].split(":pbf")[0] if i else "-"
            viol.append((f"result_depends_on_history|{short}|after={prev}", f"history {list(hist[: i + 1])}: {out['results'][i]!r:.140} vs alone {want!r:.140}"))
    if digest:
        acc.extra["digests"] += 1
        acc.extra["digest_nodes"] = max(acc.extra["digest_nodes"], out["nodes"])
        if out["tables"] != D_IMPORT[0]:
            viol.append((f"definition_tables_changed|{hist[-1].split(':pbf')[0]}", f"deep digest of the definition/config tables differs after history {list(hist)}"))
        if out["other"] is not None and out["other"] != D_IMPORT[1]:
            acc.note("non_table_module_state_changed_after(not a violation)", hist[-1].split(":pbf")[0])
        acc.states.add(out["tables"])
    for key, detail in viol:
        acc.violation(key, {"kind": "history", "events": list(hist)}, detail)
    acc.outcomes[("history", len(hist), "self-loop" if not viol else "violation")] += 1
    return viol


def history_block(first_names, depth, acc, sub=None):
    """All histories first + (depth-1 more events) + the probe set, each from the pristine state."""
    ev = events()
    names = sorted(ev)
    probes = probe_names(ev)
    tails = [()] if depth == 1 else list(itertools.product(sub or names, repeat=depth - 1))
    for first in first_names:
        for tail in tails:
            hist = (first,) + tail + tuple(probes)  # every history ends with the probe set
            judge_history(hist, acc, digest=True)


def pair_block(pairs, acc):
    """Adjacent ordered pairs (a, b), each from the pristine state; b's result vs b alone."""
    for a, b in pairs:
        judge_history((a, b), acc, digest=False)


def same_clsid_pairs():
    ev = events()
    groups = {}
    for n in sorted(ev):
        parts = n.split(":")
        if parts[0] in ("parse", "build", "buildf", "buildz", "setpoll") and len(parts) >= 3 and ":fill=" not in n:
            lab = parts[1] + ":" + parts[2]
            cid = CLSID_OF.get(lab)
            if cid:
                groups.setdefault(cid, []).append(n)
    groups.setdefault("0a31", []).append("user_mutates_list_attribute")
    out = []
    for cid, ns in sorted(groups.items()):
        for a in ns:
            for b in ns:
                if a != b:
                    out.append((a, b))
    # every event twice in a row (a one-shot resource consumed by the first call shows here)
    for n in sorted(ev):
        out.append((n, n))
    return out


# --------------------------------------------------------------------------------------
# (a) immutability
# --------------------------------------------------------------------------------------
def check_inspection_is_pure(msg, label, acc):
    """Looking at a message (str, repr, serialize, the properties) in any order leaves it as it was: the same
    attributes, and every view gives the same answer before and after the others were used."""
    views = {"str": str, "repr": repr, "serialize": lambda m: m.serialize(), "identity": lambda m: m.identity, "length": lambda m: m.length, "payload": lambda m: m.payload}
    try:
        keys0 = sorted(msg.__dict__)
        first = {}
        for order in (("str", "repr", "serialize", "identity", "length", "payload"), ("serialize", "payload", "str", "length", "repr", "identity"), ("repr", "serialize", "str")):
            for v in order:
                acc.transitions += 1
                got = views[v](msg)
                if v in first and got != first[v]:
                    acc.violation(f"inspection_changes_a_later_view|{v}", {"kind": "immut", "entry": label}, f"{label}: {v} gave {got!r:.80} after other views were used, {first[v]!r:.80} before")
                first.setdefault(v, got)
        if sorted(msg.__dict__) != keys0:
            acc.violation("inspection_changes_the_message_attributes", {"kind": "immut", "entry": label}, f"{label}: {sorted(set(msg.__dict__) ^ set(keys0))}")
    except Exception as e:  # noqa: BLE001  (judged by C08)
        acc.extra["inspection_raised(judged by C08)"] += 1


def check_immutable(msg, label, acc):
    check_inspection_is_pure(msg, label, acc)
    names = sorted(set(dir(msg)) | set(msg.__dict__) | {"brandNewAttr", "_brandNewPrivate", "_immutable", "payload", "length"})
    before = (msg.serialize(), repr(sorted((k, repr(v)) for k, v in msg.__dict__.items())))
    for name in names:
        for op in ("set", "del"):
            acc.evaluations += 1
            acc.transitions += 1
            kindname = "dunder" if name.startswith("__") else ("private" if name.startswith("_") else ("new" if name == "brandNewAttr" else ("own" if name in dir(UBXMessage) else "payload_attr")))
            try:
                if op == "set":
                    setattr(msg, name, 1)
                else:
                    delattr(msg, name)
                res = "no-error"
            except ube.UBXMessageError:
                res = "UBXMessageError"
            except Exception as e:  # noqa: BLE001
                res = type(e).__name__
            try:
                after = (msg.serialize(), repr(sorted((k, repr(v)) for k, v in msg.__dict__.items())))
            except Exception as e:  # noqa: BLE001
                after = ("serialize raised", type(e).__name__)
            acc.outcomes[("immut", op, kindname, res)] += 1
            if res != "UBXMessageError":
                acc.violation(f"{op}attr_not_refused_with_UBXMessageError|{kindname}|{res}", {"kind": "immut", "entry": label, "name": name, "op": op}, f"{op} {name} -> {res}")
            if after != before:
                acc.violation(f"{op}attr_changed_message|{kindname}", {"kind": "immut", "entry": label, "name": name, "op": op}, f"{op} {name}")
                return


def immut_messages(e):
    pl = C.build_payload(e, lambda x: 1, 1, lambda i: (7 * i + 1) % 251)
    out = []
    for pbf in (1, 0):
        try:
            out.append(UBXReader.parse(ref.frame(e.clsid[0], e.clsid[1], pl), msgmode=e.mode, parsebitfield=pbf))
        except Exception:  # noqa: BLE001
            pass
    return out


# --------------------------------------------------------------------------------------
# (c) schedules
# --------------------------------------------------------------------------------------
def _light(m):
    """Cheap comparable form (serialization + public attributes); keeps the traced work to the walk itself."""
    return (m.serialize().hex(), repr([(k, v) for k, v in m.__dict__.items() if not k.startswith("_")]))


def thread_ops():
    gnss = lambda n, seed: ref.frame(0x06, 0x3E, bytes([0, 32, 32, n]) + bytes((seed + 3 * i) % 251 for i in range(8 * n)))  # noqa: E731
    cfgv = ref.frame(0x06, 0x8B, bytes([0, 0, 0, 0]) + (270729217).to_bytes(4, "little") + b"\x01")
    ops = {
        "parse_gnss_2": lambda: _light(UBXReader.parse(gnss(2, 7))),
        "parse_gnss_1": lambda: _light(UBXReader.parse(gnss(1, 90))),
        "build_gnss": lambda: _light(UBXMessage("CFG", "CFG-GNSS", SET, numTrkChHw=2, numConfigBlocks=2, gnssId_01=3, resTrkCh_02=7, enable_02=1, sigCfMask_01=5)),
        "config_set": lambda: _light(UBXMessage.config_set(1, 0, [("CFG_ANA_USE_ANA", 1), (270925843, 0)])),
        "parse_valget": lambda: _light(UBXReader.parse(cfgv)),
        "tp5_poll": lambda: _light(UBXMessage("CFG", "CFG-TP5", POLL, tpIdx=1)),
        "tp5_set": lambda: _light(UBXMessage("CFG", "CFG-TP5", SET, tpIdx=1, freqPeriod=5, active=1)),
        "fail_build": lambda: UBXMessage("CFG", "CFG-GNSS", SET, numConfigBlocks=2, gnssId_01=1, gnssId_02="x"),
        # scaled attributes with values whose quotient by the scale is not exactly representable (2**-n and 1e-n scales):
        # the encoding must not depend on the thread that performs it (thread-local numeric contexts)
        "build_scaled": lambda: (
            _light(UBXMessage("MGA", "MGA-GPS-EPH", SET, type=1, svId=3, sqrtA=2702013314 * 2 ** -19, e=123456789 * 2 ** -33, cic=-321 * 2 ** -29)),
            _light(UBXMessage("NAV", "NAV-POSLLH", GET, lon=-84.1796521, lat=53.4507165, height=841796.52)),
            _light(UBXMessage("NAV", "NAV-DOP", GET, gDOP=84.17, pDOP=0.29, tDOP=1.15)),
        ),
        "esf_meas": lambda: _light(UBXMessage("ESF", "ESF-MEAS", SET, timeTag=1, numMeas=2, calibTtagValid=1, dataField_01=5, dataType_02=9, dataField_03=77)),
        # the shortest message there is (a poll: no payload), built, then held while it is inspected and an assignment
        # is attempted: explored to 2 preemptions also in the quick tier (equal messages built concurrently)
        "poll_null": lambda: _held(UBXMessage("CFG", "CFG-PRT", POLL)),
        "parse_null": lambda: _held(UBXReader.parse(ref.frame(0x06, 0x00, b""), msgmode=POLL)),
    }
    return ops


def _held(m):
    a = _light(m)
    try:
        m.rogue = 1
        mut = "assignment_accepted"
    except ube.UBXMessageError:
        mut = "immutable"
    except Exception as e:  # noqa: BLE001
        mut = "assignment_raises_" + type(e).__name__
    return (a, mut, _light(m), str(m))


def seq_result(fn):
    try:
        return ("ok", fn())
    except Exception as e:  # noqa: BLE001
        return ("exc", type(e).__name__, str(e))


def _cold_seq(names):
    ops = thread_ops()
    return [seq_result(ops[n]) for n in names]


def _cold_exec(names, prefix, bound):
    """(child) one schedule from the pristine import state."""
    ops = thread_ops()
    ch = engine.Chooser(list(prefix), None)
    s = threads.Scheduler([ops[n] for n in names], ch, bound)
    res = s.run()
    return res, ch.choices, ch.widths, ch.costs, s.both_in_walk, s.points


class _Meta:
    def __init__(self, both, points):
        self.both_in_walk, self.points = both, points


def explore_program(names, bound, acc, max_exec=None, first=None, shard=None, cold=False):
    """cold: every schedule (and each sequential reference run) is executed in a forked child of this process,
    which never runs a library operation itself - so each schedule starts from the import state and races
    on FIRST use (lazily built tables) are reachable, not only steady-state ones."""
    ops = thread_ops()
    fns = [ops[n] for n in names]
    want = [in_fork(_cold_seq, [n])[0] for n in names] if cold else [seq_result(f) for f in fns]
    info = {"both": False, "pts": 0}

    def run(ch):
        if cold:
            res, ch.choices, ch.widths, ch.costs, both, pts = in_fork(_cold_exec, list(names), list(ch.prefix), bound)
            return res, _Meta(both, pts)
        s = threads.Scheduler(fns, ch, bound)
        res = s.run()
        return res, s

    def on_exec(ch, out):
        res, s = out
        info["both"] = info["both"] or s.both_in_walk
        info["pts"] = max(info["pts"], s.points)
        acc.evaluations += 1
        for i, (got, w) in enumerate(zip(res, want)):
            if got != w:
                acc.violation(f"thread_result_differs_from_sequential|{names[i]}|with={'+'.join(n for j, n in enumerate(names) if j != i)}" + ("|from_import_state" if cold else ""),
                              {"kind": "sched", "program": list(names), "choices": list(ch.choices), "bound": bound, "cold": cold}, f"{got!r:.160} vs {w!r:.160}")

    st = engine.explore(run, bound=bound, merge=False, on_exec=on_exec, max_exec=max_exec, root_prefix=None if first is None else [first], dev_shard=shard)
    acc.transitions += st["points"]
    acc.nstates += st["executions"]
    acc.outcomes[("sched", len(names), bound, "capped" if st["capped"] else "complete")] += 1
    if st["capped"]:
        acc.caps.append(f"program {names} at bound {bound}: capped at {max_exec} executions")
    return st, info


def replay_case(case):
    """Module state is process-global, so every replay runs in a fresh interpreter."""
    if os.environ.get("C13_INPROC") == "1":
        return replay_inproc(case)
    import json
    import subprocess
    env = dict(os.environ)
    env["C13_INPROC"] = "1"
    r = subprocess.run([sys.executable, "-m", "checks.c13", "--replay-log"], input=json.dumps(case), capture_output=True, text=True, env=env, cwd=boot.VERIF_ROOT)
    try:
        return [tuple(x) for x in json.loads(r.stdout.strip().splitlines()[-1])]
    except Exception:  # noqa: BLE001
        raise RuntimeError(f"replay subprocess failed: {r.stdout[-500:]} {r.stderr[-500:]}")


def replay_inproc(case):
    acc = engine.Acc()
    k = case["kind"]
    if k == "immut":
        lab = case["entry"]
        if lab == "null":
            msgs = [UBXMessage("CFG", "CFG-MSG", POLL)]
        elif lab == "nominal":
            msgs = [UBXReader.parse(ref.frame(0x99, 0x88, b"abc"))]
        else:
            e = next(x for x in C.entries() if x.label == lab)
            msgs = immut_messages(e)
        for m in msgs:
            check_immutable(m, lab, acc)
    elif k == "immut_digest":
        _eval_block(("immut", case["indices"], case["extra"]), acc)
    elif k == "history":
        snapshot_table_names()
        D_IMPORT[0], D_IMPORT[1] = module_digest("tables")[0], module_digest("other")[0]
        judge_history(tuple(case["events"]), acc, digest=True)
    elif k == "threadvals":
        _eval_block(("threadvals",), acc)
    elif k == "readerhist":
        cfg = case["cfg"]
        al = lambda t: streams.item_sigs(streams.run_reader(streams.TOKENS[t][2], cfg))  # noqa: E731
        r = streams.run_reader(streams.TOKENS[case["a"]][2] + streams.TOKENS[case["b"]][2], cfg)
        if streams.item_sigs(r) != al(case["a"]) + al(case["b"]):
            acc.violation(f"reader_result_depends_on_earlier_frame|{case['b']}|msgmode={cfg['msgmode']}", case, "")
    elif k == "sched" and case.get("digest"):
        d0, _ = module_digest()
        with FdCapture() as capt:
            sub = engine.Acc()  # identical exploration (deterministic DFS order) => identical final state
            explore_program(tuple(case["program"]), case.get("bound", 0), sub, case.get("cap"), case.get("first"), tuple(case["shard"]) if case.get("shard") else None)
        if capt.out[0] or capt.out[1]:
            acc.violation(f"writes_to_stdout_or_stderr|threads|{'+'.join(case['program'])}", case, "")
        if module_digest()[0] != d0:
            acc.violation(f"definition_tables_changed|threads|{'+'.join(case['program'])}", case, "")
    elif k == "sched":
        ops = thread_ops()
        names = case["program"]
        fns = [ops[n] for n in names]
        cold = bool(case.get("cold"))
        want = [in_fork(_cold_seq, [n])[0] for n in names] if cold else [seq_result(f) for f in fns]
        s = threads.Scheduler(fns, engine.Chooser(case["choices"], None), case.get("bound"))
        res = s.run()
        for i, (got, w) in enumerate(zip(res, want)):
            if got != w:
                acc.violation(f"thread_result_differs_from_sequential|{names[i]}|with={'+'.join(n for j, n in enumerate(names) if j != i)}" + ("|from_import_state" if cold else ""), case, "")
    return [(k2, v[2]) for k2, v in acc.viol.items()]


def eval_block(block, acc):
    """Workers never touch the library themselves: immutability and schedule blocks run in a forked
    child (pristine module state at block start), history blocks fork once per history."""
    if block[0] in ("immut", "sched", "readerhist"):
        sub = in_fork(_eval_in_child, block)
        acc.merge(sub)
    else:
        _eval_block(block, acc)


def _eval_in_child(block):
    sub = engine.Acc()
    _eval_block(block, sub)
    return sub


def _eval_block(block, acc):
    kind = block[0]
    if kind == "immut":
        ents = C.entries()
        d_before = module_digest()[0]
        clean = True
        for i in block[1]:
            e = ents[i]
            if not e.routed or C.invalid_types(e.pdict):
                continue
            for m in immut_messages(e):
                check_immutable(m, e.label, acc)
            acc.extra["immut_definitions"] += 1
        if block[2]:
            check_immutable(UBXMessage("CFG", "CFG-MSG", POLL), "null", acc)
            check_immutable(UBXReader.parse(ref.frame(0x99, 0x88, b"abc")), "nominal", acc)
        if not clean:
            acc.extra["blocks_started_from_polluted_state(not judged for state change)"] += 1
        elif module_digest()[0] != d_before:
            acc.violation("definition_tables_changed|immutability_probe", {"kind": "immut_digest", "indices": list(block[1]), "extra": bool(block[2])}, "")
    elif kind == "pairs":
        pair_block(block[1], acc)
    elif kind == "hist":
        history_block(block[1], block[2], acc, block[3] if len(block) > 3 else None)
        if len(acc.samples) < 1:
            acc.sample({"history": [block[1][0]] + (["<every event of the (sub-)alphabet>"] * (block[2] - 1)), "then": "probe set", "digest_nodes": acc.extra["digest_nodes"]})
    elif kind == "threadvals":
        # the same construction in the importing thread and in a freshly started thread (no interleaving at all), in
        # a fresh interpreter (mc/threadvals.py):
        # scaled attributes over 2**-n and 1e-n scales with 64 consecutive raw values each, whose decimal
        # representation lies on either side of the exact quotient
        import json
        import subprocess
        r = subprocess.run([sys.executable, "-m", "mc.threadvals"], capture_output=True, text=True, cwd=boot.VERIF_ROOT, env=dict(os.environ))
        try:
            res = json.loads(r.stdout.strip().splitlines()[-1])
        except Exception:  # noqa: BLE001
            raise engine.Broken(f"mc.threadvals failed: {r.stdout[-300:]} {r.stderr[-300:]}")
        here, there, again = res["here"], res["there"], res["again"]
        acc.evaluations += 2 * len(here)
        acc.transitions += 2 * len(here)
        diff = [i for i, (a, b) in enumerate(zip(here, there)) if a != b]
        if diff or len(there) != len(here):
            acc.violation("result_depends_on_the_thread_that_computes_it", {"kind": "threadvals"}, f"{len(diff)} of {len(here)} constructions differ, first: {here[diff[0]][:60] if diff else None} vs {there[diff[0]][:60] if diff else None}")
        if again != here:
            acc.violation("result_depends_on_history|threadvals", {"kind": "threadvals"}, "")
        acc.outcomes[("threadvals", len(set(here)))] += 1
    elif kind == "readerhist":
        # one reader, two frames: what it delivers for the second frame must be what a fresh reader delivers for
        # that frame alone (items(A+B) == items(A) + items(B)) - for every ordered pair of frame tokens, 4 modes
        toks = [t for t in streams.FRAME_TOKENS + list(streams.ERR_TOKENS)]
        mode = block[1]
        for va in (1, 0):
            cfg = dict(quitonerror=0, msgmode=mode, validate=va)
            alone = {t: streams.item_sigs(streams.run_reader(streams.TOKENS[t][2], cfg)) for t in toks}
            for a in toks:
                for b in toks:
                    r = streams.run_reader(streams.TOKENS[a][2] + streams.TOKENS[b][2], cfg)
                    acc.evaluations += 1
                    acc.transitions += 2
                    if r.raised is None and not r.horizon and streams.item_sigs(r) != alone[a] + alone[b]:
                        acc.violation(f"reader_result_depends_on_earlier_frame|{b}|msgmode={mode}", {"kind": "readerhist", "a": a, "b": b, "cfg": cfg}, f"after {a}: {len(r.items)} items vs {len(alone[a])}+{len(alone[b])}")
        acc.outcomes[("readerhist", mode)] += 1
    elif kind == "coldsched":
        _, names, bound, first, shard = block
        st, info = explore_program(tuple(names), bound, acc, None, first, tuple(shard) if shard else None, cold=True)
        acc.extra["cold_schedules"] += st["executions"]
    elif kind == "sched":
        _, names, bound, cap = block[:4]
        first = block[4] if len(block) > 4 else None
        shard = tuple(block[5]) if len(block) > 5 else None
        d0, _ = module_digest()
        clean = True
        with FdCapture() as capt:
            st, info = explore_program(tuple(names), bound, acc, cap, first, shard)
        if capt.out[0] or capt.out[1]:
            acc.violation(f"writes_to_stdout_or_stderr|threads|{'+'.join(names)}", {"kind": "sched", "program": list(names), "digest": True, "bound": bound, "cap": cap, "first": first, "shard": list(shard) if shard else None}, f"{capt.out[0][:80]!r} {capt.out[1][:80]!r}")
        if not clean:
            acc.extra["blocks_started_from_polluted_state(not judged for state change)"] += 1
        elif module_digest()[0] != d0:
            acc.violation(f"definition_tables_changed|threads|{'+'.join(names)}", {"kind": "sched", "program": list(names), "digest": True, "bound": bound, "cap": cap, "first": first, "shard": list(shard) if shard else None}, "")
        acc.extra[f"both_in_walk:{'+'.join(names)}"] += int(info["both"])
        acc.extra["max_points"] = max(acc.extra["max_points"], info["pts"])


D_IMPORT = [None, None]


def run_tier(tier, t0):
    q = tier == "quick"
    ents = C.entries()
    idx = list(range(len(ents)))
    snapshot_table_names()
    D_IMPORT[0], D_IMPORT[1] = module_digest("tables")[0], module_digest("other")[0]  # the parent never applies an event: import state
    blocks = [("immut", idx[i::32], i == 0) for i in range(32)]
    ev = events()
    names = sorted(ev)
    blocks += [("hist", names[i::48], 1) for i in range(48)]
    sp = same_clsid_pairs()
    if not q:
        pe = [n for n in names if n.startswith("parse:") and n.endswith("pbf=1")]
        sp = sp + [(a, b) for a in pe for b in pe if a != b]
    blocks += [("pairs", sp[i::64]) for i in range(64) if sp[i::64]]
    sub = [n for n in names if n.startswith(("parse:GET:NAV-SAT", "build:SET:ESF-MEAS", "parse:POLL:CFG-TP5-TPX", "config_set", "fail:kw_group", "fail:midwalk_array", "read:q=1:mode=0", "parse:SET:RXM-PMP-V0", "build:SET:CFG-DAT-NUM", "helpers", "cfgtxn:set:L1:T2", "cfgtxn:set:L1:T3", "cfgtxn:del:L1:T2", "cfgtxn:del:L1:T3"))]
    if q:
        # length-2 histories: every event followed by every event of the sub-alphabet
        firsts = [n for n in names if not (n.startswith(("parse:", "build:")) and n.split(":pbf")[0].split(":", 1)[1] not in FULL_LABELS)]
        blocks += [("hist", [n], 2, sub) for n in firsts]
    else:
        firsts = [n for n in names if not (n.startswith(("parse:", "build:")) and n.split(":pbf")[0].split(":", 1)[1] not in FULL_LABELS)]
        blocks += [("hist", [n], 2, firsts) for n in firsts]
        blocks += [("hist", [n], 3, sub) for n in sub]
    ops = sorted(thread_ops())
    pairs = list(itertools.combinations_with_replacement(ops, 2))
    QUICK_PAIRS = [("parse_gnss_1", "parse_gnss_2"), ("parse_gnss_2", "parse_gnss_2"), ("build_gnss", "parse_gnss_1"), ("build_gnss", "build_gnss"),
                   ("config_set", "parse_valget"), ("tp5_poll", "tp5_set"), ("tp5_poll", "tp5_poll"), ("build_gnss", "fail_build"),
                   ("fail_build", "parse_gnss_2"), ("build_scaled", "build_scaled"), ("build_scaled", "parse_gnss_1"), ("esf_meas", "esf_meas"), ("esf_meas", "parse_gnss_1"), ("config_set", "config_set"), ("poll_null", "poll_null"), ("parse_null", "poll_null")]
    if q:
        pairs = [p for p in pairs if p in QUICK_PAIRS]
    K = 4
    for a, b in pairs:
        for first in (0, 1):
            for k in range(K):
                blocks.append(("sched", [a, b], 1, None, first, (k, K)))
    for a, b in (("poll_null", "poll_null"), ("parse_null", "poll_null")):
        for first in (0, 1):
            for k in range(K):
                blocks.append(("sched", [a, b], 2, 8000, first, (k, K)))
    blocks += [("readerhist", m) for m in range(4)]
    blocks.append(("threadvals",))
    COLD_PAIRS = [("parse_valget", "parse_valget"), ("config_set", "parse_valget"), ("config_set", "config_set"), ("parse_gnss_1", "parse_gnss_2"), ("build_gnss", "parse_gnss_1"), ("tp5_poll", "tp5_set")]
    for a, b in (COLD_PAIRS if q else pairs):
        for first in (0, 1):
            for k in range(K):
                blocks.append(("coldsched", [a, b], 1, first, (k, K)))
    if not q:
        for a, b in pairs:
            for first in (0, 1):
                for k in range(K):
                    blocks.append(("sched", [a, b], 2, 8000, first, (k, K)))
        for tr in list(itertools.combinations(ops, 3))[:20]:
            blocks.append(("sched", list(tr), 1, None))
    acc = engine.sweep(blocks, eval_block)
    nr = sum(1 for e in ents if e.routed and not C.invalid_types(e.pdict))
    walk_pairs = [f"{a}+{b}" for a, b in pairs if all(x in ("parse_gnss_2", "parse_gnss_1", "build_gnss", "esf_meas", "tp5_set", "fail_build") for x in (a, b))]
    engine.finish(
        PROP, tier, acc, t0, replay_case,
        rule=(
            f"(a) one parsed message per routed definition x 2 views + null-payload + nominal: every name in dir(msg)+__dict__+fresh names x {{set, delete}}; "
            f"(b) {len(names)} events (parse and keyword build of every routed definition, parse of every definition with all-01 and all-ff field content, SETPOLL and raw-bitfield parses of every variant route and special case, config helpers, all helpers, 20 failing calls, stream reads under 3 policies x 3 modes): "
            f"every event from the import state followed by the probe set, with a deep digest of all pyubx2 module data (states = distinct digests, must be 1), all histories of length 2 "
            + (f"over a {len(sub)}-event sub-alphabet as second event" if q else f"and length 3 over a {len(sub)}-event sub-alphabet")
            + f" with probe-set comparison, all {len(sp)} adjacent ordered pairs of events that share a class/ID (and every event applied twice in a row)" + ("" if q else " and all ordered pairs of parse events") + ", fd 1/2 captured around every event; (c) all {len(pairs)} unordered pairs of {len(ops)} colliding operations as real threads under the cooperative scheduler, "
            + ("every schedule with <= 1 preemption" if q else "every schedule with <= 1 preemption, <= 2 preemptions (capped at 8,000 executions per shard = 64,000 per pair, caps listed), 20 triples at bound 1")
            + f"; {len(COLD_PAIRS) if q else len(pairs)} pairs also with every schedule (<= 1 preemption) started from the import state in a forked child (first-use races)" + ". transitions = events applied + scheduling points executed; distinct_nontrivial = outcome classes"
        ),
        assumptions=[
            "scheduling points are line events inside the pyubx2 package (sys.settrace); preemption inside a single bytecode is not modelled (GIL); free-threaded builds out of scope",
            "object.__setattr__ bypasses are not 'assigning an attribute' and are out of scope",
            "stdout/stderr silence is checked for parse/construct/serialize/print and for read() with an error handler (O12)",
        ],
        vacuity=[
            (f"immutability covered all {nr} routed definitions", acc.extra["immut_definitions"] == nr),
            ("module digest covered a large state", acc.extra["digest_nodes"] > 20000),
            ("at least one pair had both threads inside the attribute walk at a preemption", any(acc.extra.get(f"both_in_walk:{p}") for p in walk_pairs)),
            ("exactly one module state observed" if not acc.viol else "n/a", len(acc.states) == 1 or bool(acc.viol)),
        ],
        states=len(acc.states) + acc.nstates,
    )


if __name__ == "__main__":
    if "--replay-log" in sys.argv:
        import json
        case = json.loads(sys.stdin.read())
        print(json.dumps(replay_case(case)))
        sys.exit(0)
    engine.main(PROP, run_tier, replay_case, eval_block)
