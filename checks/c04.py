"""C04 - every message the library builds serializes to a well-formed UBX frame.

Routes: keyword attributes (nominal, counts 0..2, each attribute at boundary values), raw payload
(every length 0..nominal+16 x fills), config_set / config_del / config_poll, and the no-keyword
form for every message ID x mode; each addressed by names, by integers and by bytes.
Oracle: independent framing (sync chars, class, ID, little-endian length == actual payload length
== msg.length, reference Fletcher checksum), acceptance by UBXReader.parse in the same mode with
identical re-serialization, and identical bytes for the three addressing forms.
"""
import itertools

from mc import boot  # noqa: F401
from mc import catalogue as C, construct as K, engine, framespace as FS
from mc.refmodel import core as ref, layout as L
from mc.refmodel.layout import GET, SET, POLL
from mc.streams import UBX_ERRORS

from pyubx2 import UBXMessage, UBXReader, UBX_MSGIDS, UBX_CLASSES
from pyubx2.ubxtypes_configdb import UBX_CONFIG_DATABASE

PROP = "C04"


def frame_checks(msg, cid, mode, site):
    """Independent framing oracle + acceptance by parse."""
    out = []
    try:
        fr = msg.serialize()
    except Exception as e:  # noqa: BLE001
        return None, [(f"serialize_raises|{site}|{type(e).__name__}", str(e))]
    if not isinstance(fr, bytes) or len(fr) < 8:
        return fr, [(f"frame_too_short|{site}", repr(fr)[:80])]
    if fr[0:2] != b"\xb5\x62":
        out.append((f"bad_sync_chars|{site}", fr[:2].hex()))
    if fr[2:4] != cid:
        out.append((f"class_id_bytes_wrong|{site}", f"{fr[2:4].hex()} want {cid.hex()}"))
    n = int.from_bytes(fr[4:6], "little")
    pl = msg.payload
    plen = 0 if pl is None else len(pl)
    if n != len(fr) - 8 or n != plen or fr[6:-2] != (pl or b""):
        out.append((f"length_field_wrong|{site}", f"declared {n}, frame carries {len(fr) - 8}, payload {plen}"))
    try:
        if msg.length != plen:
            out.append((f"length_property_wrong|{site}", f"{msg.length} vs {plen}"))
    except Exception as e:  # noqa: BLE001
        out.append((f"length_property_raises|{site}|{type(e).__name__}", str(e)))
    if fr[-2:] != ref.fletcher8(fr[2:-2]):
        out.append((f"checksum_wrong|{site}", f"{fr[-2:].hex()} want {ref.fletcher8(fr[2:-2]).hex()}"))
    if not out:
        try:
            m2 = UBXReader.parse(fr, msgmode=mode)
            if m2.serialize() != fr:
                out.append((f"reparse_serializes_differently|{site}", fr.hex()[:80]))
        except Exception as e:  # noqa: BLE001
            out.append((f"own_frame_refused_by_parse|{site}|{type(e).__name__}", f"{e} frame={fr.hex()[:80]}"))
    return fr, out


def addressing_forms(cid, name_id):
    """(label, cls, id) for names / ints / bytes."""
    forms = [("bytes", cid[0:1], cid[1:2]), ("ints", cid[0], cid[1])]
    cname = UBX_CLASSES.get(cid[0:1])
    if cname is not None and name_id is not None:
        forms.append(("names", cname, name_id))
    return forms


def build_all_forms(cid, name_id, mode, kw, site, acc, case):
    """Build by every addressing form; all must agree; first is checked for framing."""
    frames = {}
    errs = {}
    for label, a, b in addressing_forms(cid, name_id):
        try:
            m = UBXMessage(a, b, mode, **kw)
            frames[label] = (m, m.serialize())
        except UBX_ERRORS as e:
            errs[label] = type(e).__name__
        except Exception as e:  # noqa: BLE001  (C15 judges exception classes)
            errs[label] = type(e).__name__
    acc.evaluations += len(frames) + len(errs)
    out = []
    if frames and errs:
        out.append((f"addressing_forms_disagree|{site}|some_refuse", f"built by {sorted(frames)}, refused by {errs}"))
    elif len({f for _, f in frames.values()}) > 1:
        out.append((f"addressing_forms_disagree|{site}|different_bytes", str({k: v[1].hex()[:40] for k, v in frames.items()})))
    if frames:
        m, _ = frames.get("bytes") or next(iter(frames.values()))
        fr, o2 = frame_checks(m, cid, mode, site)
        out += o2
        acc.transitions += 1
        acc.outcomes[(site.split("|")[0], mode, "built")] += 1
    else:
        acc.outcomes[(site.split("|")[0], mode, "refused")] += 1
    for key, detail in out:
        acc.violation(key, case, detail)


def names_for(cid, payload_first):
    """Message-ID name usable with the names form for this class/ID (MGA: typed name)."""
    if cid[0:1] == b"\x13" and cid != b"\x13\x80":
        return UBX_MSGIDS.get(cid + payload_first)
    return UBX_MSGIDS.get(cid)


def _jkw(kw):
    return {k: ({"b": v.hex()} if isinstance(v, bytes) else v) for k, v in kw.items()}


def _unjkw(kw):
    return {k: (bytes.fromhex(v["b"]) if isinstance(v, dict) and "b" in v else v) for k, v in kw.items()}


def replay_case(case):
    if case.get("kind") == "threads":
        return replay_threads(case)
    if case.get("kind") == "namehist":
        a = engine.Acc()
        run_name_history(next(x for x in C.entries() if x.label == case["entry"]), a)  # (replays run in a fresh fork)
        return [(k, v[2]) for k, v in a.viol.items()]
    if case.get("kind") == "unvalidated":
        e = next(x for x in C.entries() if x.label == case["entry"])
        try:
            m = UBXReader.parse(bytes.fromhex(case["x"]), msgmode=e.mode, validate=0, parsebitfield=case["pbf"])
        except Exception:  # noqa: BLE001
            return []
        return frame_checks(m, e.clsid, e.mode, f"parsed_with_VALNONE|{case['what']}")[1]
    if case.get("kind") == "anyvalue":
        e = next(x for x in C.entries() if x.label == case["entry"])
        kw0, vals = hostile_field_values(e)
        for f, vclass, v in vals:
            if f.name == case["field"] and vclass == case["vclass"]:
                return judge_any_value(e, kw0, f, vclass, v)[1]
        return []
    acc = engine.Acc()
    if case["kind"] == "kw":
        cid = bytes.fromhex(case["cid"])
        build_all_forms(cid, case["name"], case["mode"], _unjkw(case["kw"]), case["site"], acc, case)
    elif case["kind"] == "extreme":
        cid = bytes.fromhex(case["cid"])
        pl = bytes(case["n"])
        build_all_forms(cid, names_for(cid, pl[0:1]), case["mode"], {"payload": pl}, case["site"], acc, case)
    elif case["kind"] == "cfg":
        run_config(acc, only=case)
    return [(k, v[2]) for k, v in acc.viol.items()]


def boundary_kw(f):
    if f.kind == "flag":
        return [(1 << f.bits) - 1]
    t = f.typ
    if t == "CH":
        return ["hello"]
    k, n = t[0], L.tsize(t)
    if k in "UEIL":
        lo, hi = L.int_range(t)
        if f.scale != 1:
            return [lo * f.scale, hi * f.scale]
        return [lo, hi] if lo else [hi, 1]
    if k == "R":
        return [1.5, -1e30]
    if k in "XC":
        return [b"\xff" * n]
    if k == "A":
        return [[255] * n]
    return []


def run_entry(e, quick, acc):
    kwroute = K.route_kwargs(e)
    sizes = C._size_fields(e.pdict)
    # MGA names form needs the typed name; variant keys use the plain message name
    first = bytes([e.pins[0]]) if 0 in e.pins else b""
    name_id = names_for(e.clsid, first)
    if kwroute is not None:
        for count in (0, 1, 2):
            kw = dict(kwroute)
            kw.update({n: count for n in sizes})
            kw = K.trivial_kwarg(e, kw)
            site = f"keywords|{e.label}"
            build_all_forms(e.clsid, name_id, e.mode, kw, site, acc, {"kind": "kw", "cid": e.clsid.hex(), "name": name_id, "mode": e.mode, "kw": _jkw(kw), "site": site})
            if not sizes:
                break
        kw0 = dict(kwroute)
        kw0.update({n: 1 for n in sizes})
        try:
            _, fields = L.encode(e.pdict, K.trivial_kwarg(e, kw0), True, L.special_of(e.mode, e.clsid))
        except L.Unfit:
            fields = []
        seen = set()
        for f in fields:
            if f.name in seen or f.name.startswith("_HP") or f.base in sizes or (f.off in e.pins and f.kind == "plain") or (f.path and max(f.path) > 2):
                continue
            seen.add(f.name)
            for v in boundary_kw(f):
                kw = dict(kw0)
                kw[f.name] = v
                site = f"keywords|{e.label}"
                build_all_forms(e.clsid, name_id, e.mode, kw, site, acc, {"kind": "kw", "cid": e.clsid.hex(), "name": name_id, "mode": e.mode, "kw": _jkw(kw), "site": site})
    acc.states.add(e.label)


def hostile_field_values(e):
    """[(field, value class, value)] - the value menu of C15 (values of any type and magnitude), first member of each group."""
    from checks.c15 import hostile_values
    sizes = C._size_fields(e.pdict)
    kw0 = dict(K.route_kwargs(e) or {})
    kw0.update({n: 1 for n in sizes})
    try:
        _, fields = L.encode(e.pdict, K.trivial_kwarg(e, kw0), True, L.special_of(e.mode, e.clsid))
    except L.Unfit:
        return kw0, []
    out, seen = [], set()
    for f in fields:
        if f.name in seen or f.name.startswith("_HP") or (f.path and max(f.path) > 1):
            continue
        seen.add(f.name)
        for vclass, v in hostile_values(f, True):
            out.append((f, vclass, v))
    return kw0, out


def judge_any_value(e, kw0, f, vclass, v):
    """Whatever value is supplied: IF construction succeeds, the message serializes to a well-formed frame that
    parse accepts in the same mode."""
    kw = dict(kw0)
    kw[f.name] = v
    try:
        m = UBXMessage(e.clsid[0:1], e.clsid[1:2], e.mode, **K.trivial_kwarg(e, kw))
    except Exception:  # noqa: BLE001  (refusals and their exception types are C15's business)
        return "refused", []
    k = "CH" if f.typ == "CH" else f.typ[0]
    _, out = frame_checks(m, e.clsid, e.mode, f"keywords_any_value|{k}|{vclass}")
    return "built", out


def run_any_value(e, acc):
    if K.route_kwargs(e) is None:
        return
    kw0, vals = hostile_field_values(e)
    for f, vclass, v in vals:
        st, out = judge_any_value(e, kw0, f, vclass, v)
        acc.evaluations += 1
        acc.outcomes[("anyvalue", "keywords", st)] += 1
        for key, detail in out:
            acc.violation(key, {"kind": "anyvalue", "entry": e.label, "field": f.name, "vclass": vclass}, f"{e.label} {f.name}: {detail}")


def run_parsed_unvalidated(e, acc):
    """A message obtained by parsing a frame whose checksum or length field is damaged, with validate=VALNONE:
    it is a message like any other - serialize() must give a well-formed frame that parse accepts."""
    pl = C.build_payload(e, lambda x: 1, 1, lambda i: (5 * i + 2) % 250)
    if not pl:
        return
    good = ref.frame(e.clsid[0], e.clsid[1], pl)
    damaged = {
        "checksum_a": good[:-2] + bytes([good[-2] ^ 0x40]) + good[-1:],
        "checksum_b": good[:-1] + bytes([good[-1] ^ 0x01]),
        "length_plus_1": good[:4] + (len(pl) + 1).to_bytes(2, "little") + good[6:],
        "length_zero": good[:4] + b"\x00\x00" + good[6:],
    }
    for what, x in damaged.items():
        for pbf in (1, 0):
            try:
                m = UBXReader.parse(x, msgmode=e.mode, validate=0, parsebitfield=pbf)
            except Exception:  # noqa: BLE001
                acc.outcomes[("parsed_unvalidated", "payload", "refused")] += 1
                continue
            acc.evaluations += 1
            acc.outcomes[("parsed_unvalidated", "payload", "built")] += 1
            _, out = frame_checks(m, e.clsid, e.mode, f"parsed_with_VALNONE|{what}")
            for key, detail in out:
                acc.violation(key, {"kind": "unvalidated", "entry": e.label, "what": what, "pbf": pbf, "x": x.hex()}, f"{e.label}: {detail}")


def run_name_history(e, acc):
    """Name addressing must not depend on earlier calls: the message name is first used with every OTHER class
    name (whatever that call does), then the usual (class name, message name) form must still equal the int form."""
    from pyubx2 import UBX_CLASSES
    first = bytes([e.pins[0]]) if 0 in e.pins else b""
    mname = names_for(e.clsid, first)
    cname = UBX_CLASSES.get(e.clsid[0:1])
    if not mname or not cname or K.route_kwargs(e) is None:
        return
    name_id = (cname, mname)
    kw = K.trivial_kwarg(e, dict(K.route_kwargs(e), **{n: 1 for n in C._size_fields(e.pdict)}))
    try:
        want = UBXMessage(e.clsid[0], e.clsid[1], e.mode, **kw).serialize()
    except Exception:  # noqa: BLE001
        return
    for other in UBX_CLASSES.values():
        if other == name_id[0]:
            continue
        try:
            UBXMessage(other, name_id[1], e.mode, **kw)
        except Exception:  # noqa: BLE001
            pass
        acc.evaluations += 1
        try:
            got = UBXMessage(name_id[0], name_id[1], e.mode, **kw).serialize()
        except Exception as ex:  # noqa: BLE001
            got = f"{type(ex).__name__}"
        if got != want:
            acc.violation(f"addressing_forms_disagree|after_name_used_with_another_class", {"kind": "namehist", "entry": e.label}, f"{e.label} after ({other}, {name_id[1]}): names give {got if isinstance(got, str) else got.hex()[:24]}, ints give {want.hex()[:24]}")
            return


def run_payload_route(cid, ents, quick, acc):
    nom = FS.nominal_len(cid, ents)
    modes = sorted({e.mode for e in ents if e.clsid == cid}) or [GET]
    lengths = sorted({0, 1, 2, 3, max(nom - 1, 0), nom, nom + 1, nom + 16}) if quick else range(0, nom + 17)
    for fill in ("inc", "ff") if quick else ("00", "ff", "inc", "55aa"):
        for mode in modes:
            amp = FS.amplifies(mode, cid, FS.payload_of(fill, nom + 16)) or FS.amplifies(mode, cid, FS.payload_of(fill, 8))
            for n in lengths:
                if amp and n not in (0, 1, nom):
                    continue
                pl = FS.payload_of(fill, n)
                name_id = names_for(cid, pl[0:1])
                site = f"payload|cls={cid[0]:02x}"
                build_all_forms(cid, name_id, mode, {"payload": pl}, site, acc, {"kind": "kw", "cid": cid.hex(), "name": name_id, "mode": mode, "kw": {"payload": {"b": pl.hex()}}, "site": site})


def run_extreme_lengths(acc):
    """Payload route at and beyond the largest length a 2-byte length field can express."""
    for cid in (b"\x05\x01", b"\x0a\x04", b"\x00\x00", b"\x21\x04", b"\x06\x8a"):
        for n in (251, 252, 253, 255, 256, 508, 764, 4092, 65532, 65534, 65535, 65536, 65537, 65540, 70000, 131072):
            for mode in (GET, SET):
                pl = bytes(n)
                site = f"payload_extreme|{'fits' if n <= 65535 else 'exceeds_u2'}"
                build_all_forms(cid, names_for(cid, pl[0:1]), mode, {"payload": pl}, site, acc,
                                {"kind": "extreme", "cid": cid.hex(), "mode": mode, "n": n, "site": site})


def run_nokw(acc):
    for b, name in UBX_MSGIDS.items():
        cid = b[0:2]
        for mode in (GET, SET, POLL):
            site = "no_keywords"
            nm = name if list(UBX_MSGIDS.values()).count(name) == 1 else None
            build_all_forms(cid, nm, mode, {}, site, acc, {"kind": "kw", "cid": cid.hex(), "name": nm, "mode": mode, "kw": {}, "site": site})
    for cid in (b"\x00\x00", b"\xff\xff", b"\x06\xff", b"\xf0\x00"):
        for mode in (GET, SET, POLL):
            for pl in (None, b"abc"):
                kw = {} if pl is None else {"payload": pl}
                build_all_forms(cid, None, mode, kw, "unknown_id", acc, {"kind": "kw", "cid": cid.hex(), "name": None, "mode": mode, "kw": _jkw(kw), "site": "unknown_id"})


def run_config(acc, only=None):
    db = list(UBX_CONFIG_DATABASE.items())
    reps = {}
    for i, (name, (kid, t)) in enumerate(db):
        reps.setdefault(t, i)
    idx = sorted(reps.values())
    plans = []
    for n in (0, 1, 2, 3, 17, 63, 64):
        ks = [db[(i * 37) % len(db)] for i in range(n)]
        plans.append(ks)
    plans += [[db[i]] for i in idx]
    kept = []
    for ks in plans:
        for byname in (True, False):
            cfg = []
            for name, (kid, t) in ks:
                v = L.nominal(t) if t[0] != "U" else (1 << (8 * L.tsize(t))) - 1
                cfg.append((name if byname else kid, v))
            keys = [k for k, _ in cfg]
            for fn, mode, cid, call in (
                ("config_set", SET, b"\x06\x8a", lambda: UBXMessage.config_set(1, 0, cfg)),
                ("config_del", SET, b"\x06\x8c", lambda: UBXMessage.config_del(2, 1, keys)),
                ("config_poll", POLL, b"\x06\x8b", lambda: UBXMessage.config_poll(0, 3, keys)),
            ):
                site = f"{fn}"
                try:
                    m = call()
                except Exception as e:  # noqa: BLE001
                    acc.violation(f"helper_refuses_valid_input|{site}|{type(e).__name__}", {"kind": "cfg", "n": len(ks)}, str(e))
                    continue
                fr, out = frame_checks(m, cid, mode, site)
                kept.append((m, fr, cid, mode, site, len(ks)))
                acc.evaluations += 1
                acc.transitions += 1
                acc.outcomes[(fn, len(ks) > 1, "built")] += 1
                for key, detail in out:
                    acc.violation(key, {"kind": "cfg", "n": len(ks)}, detail)
    # messages built earlier must still be the same well-formed frames after all later constructions
    for m, fr, cid, mode, site, n in kept:
        fr2, out = frame_checks(m, cid, mode, site)
        if fr2 != fr:
            out.append((f"earlier_message_changed_by_later_construction|{site}", f"{(fr or b'').hex()[:40]} -> {(fr2 or b'').hex()[:40]}"))
        for key, detail in out:
            acc.violation(key if key.startswith("earlier") else key + "|after_later_constructions", {"kind": "cfg", "n": n}, detail)
    # by-name and by-ID lists must give identical frames
    ks = [db[(i * 37) % len(db)] for i in range(20)]
    a = UBXMessage.config_poll(0, 0, [n for n, _ in ks]).serialize()
    b = UBXMessage.config_poll(0, 0, [k for _, (k, _) in ks]).serialize()
    if a != b:
        acc.violation("addressing_forms_disagree|config_poll|different_bytes", {"kind": "cfg", "n": 20}, "")


def thread_ops():
    """Constructions of messages with DIFFERENT class, length and content, one per route."""
    from pyubx2 import SET, POLL, GET
    return {
        "kw": lambda: UBXMessage("CFG", "CFG-MSG", SET, msgClass=240, msgID=5, rateUART1=1, rateUSB=2).serialize().hex(),
        "payload": lambda: UBXMessage(b"\x04", b"\x02", GET, payload=bytes(range(33, 33 + 24))).serialize().hex(),
        "config": lambda: UBXMessage.config_set(1, 0, [("CFG_UART1_BAUDRATE", 115200)]).serialize().hex(),
        "poll": lambda: UBXMessage("NAV", "NAV-PVT", POLL).serialize().hex(),
        "parse": lambda: UBXReader.parse(ref.frame(0x05, 0x01, b"\x06\x01"), msgmode=GET).serialize().hex(),
    }


def _alone(f):
    try:
        return ("ok", f())
    except Exception as e:  # noqa: BLE001
        return ("exc", type(e).__name__, str(e))


def thread_verdicts(names, res, want):
    out = []
    for i, (got, w) in enumerate(zip(res, want)):
        site = f"{names[i]}|with={names[1 - i]}"
        if got[0] == "ok" and not ref.wellformed(bytes.fromhex(got[1])):
            out.append((f"frame_not_well_formed_when_built_concurrently|{site}", f"{got[1][:80]}"))
        elif got != w:
            out.append((f"frame_differs_when_built_concurrently|{site}", f"{got!r:.120} vs alone {w!r:.120}"))
    return out


def explore_threads(names, first, acc):
    """Two constructions as real threads under the cooperative scheduler (line events inside pyubx2 are the
    scheduling points), every schedule with at most one preemption: each serialize() must be a well-formed frame,
    the one the same construction gives alone."""
    from mc import threads
    ops = thread_ops()
    fns = [ops[n] for n in names]
    want = [_alone(f) for f in fns]

    def run(ch):
        return threads.Scheduler(fns, ch, 1).run()

    def on_exec(ch, res):
        acc.evaluations += 1
        for key, detail in thread_verdicts(names, res, want):
            acc.violation(key, {"kind": "threads", "program": list(names), "first": first, "choices": list(ch.choices)}, detail)

    st = engine.explore(run, bound=1, merge=False, on_exec=on_exec, root_prefix=[first])
    acc.transitions += st["points"]
    acc.outcomes[("threads", "+".join(names), "built" if not st["capped"] else "capped")] += 1


def replay_threads(case):
    from mc import threads
    ops = thread_ops()
    fns = [ops[n] for n in case["program"]]
    want = [_alone(f) for f in fns]
    res = threads.Scheduler(fns, engine.Chooser(case["choices"], None), 1).run()
    return thread_verdicts(case["program"], res, want)


def eval_block(block, acc):
    ents = C.entries()
    kind = block[0]
    if kind == "threads":
        explore_threads(block[1], block[2], acc)
        return
    quick = block[-1]
    if kind == "entries":
        for i in block[1]:
            e = ents[i]
            if e.routed and not C.invalid_types(e.pdict):
                run_entry(e, quick, acc)
                run_any_value(e, acc)
                run_parsed_unvalidated(e, acc)
        if len(acc.samples) < 1 and acc.states:
            acc.sample({"entry": sorted(acc.states)[0], "routes": "keywords x {bytes, ints, names}"})
    elif kind == "namehist":
        # in a fresh process: nothing has resolved a name yet
        for e in ents[block[1]::block[2]]:
            if e.routed and not C.invalid_types(e.pdict):
                run_name_history(e, acc)
    elif kind == "payload":
        run_payload_route(bytes.fromhex(block[1]), ents, quick, acc)
    elif kind == "nokw":
        run_nokw(acc)
    elif kind == "extreme":
        run_extreme_lengths(acc)
    elif kind == "config":
        run_config(acc)


def run_tier(tier, t0):
    q = tier == "quick"
    ents = C.entries()
    idx = list(range(len(ents)))
    blocks = [("entries", idx[i::64], q) for i in range(64)]
    blocks += [("payload", cid.hex(), q) for cid in FS.known_clsids()]
    blocks += [("nokw", q), ("config", q), ("extreme", q)]
    blocks += [("namehist", i, 8, q) for i in range(8)]
    import itertools
    for a, b in itertools.combinations_with_replacement(sorted(thread_ops()), 2):
        for first in (0, 1):
            blocks.append(("threads", [a, b], first))
    acc = engine.sweep(blocks, eval_block)
    nr = sum(1 for e in ents if e.routed and not C.invalid_types(e.pdict))
    engine.finish(
        PROP, tier, acc, t0, replay_case,
        rule=(
            f"{nr} routed definitions x keyword route (counts 0..2; every attribute at its boundary values) ; every named class/ID x payload route x "
            + ("lengths {0,1,2,3,nominal-1,nominal,nominal+1,nominal+16} x 2 fills" if q else "every length 0..nominal+16 x 4 fills")
            + " x its modes; no-keyword form of every message ID x 3 modes; unknown class/IDs; payload lengths 251..131,072 (256-byte block boundaries of the checksummed content; at and beyond the 2-byte length field); config_set/del/poll with 0..64 keys by name and by ID; every construction attempted by bytes, ints and names. "
            "states = definitions covered; transitions = frames checked against the independent framing oracle; distinct_nontrivial = (route, mode, built/refused) classes"
        ),
        assumptions=["independent Fletcher/framing in mc/refmodel/core.py", "thread ring: all 15 unordered pairs of 5 constructions (keywords, payload, config helper, poll, parse) as two real threads under the cooperative line-event scheduler, every schedule with <= 1 preemption: each frame well-formed and equal to the one built alone", "the names form is compared where the message ID has a unique name (O11)"],
        vacuity=[(f"all {nr} routed definitions covered", len(acc.states) == nr), ("all three routes built frames", {"keywords", "payload", "no_keywords"} <= {k[0] for k in acc.outcomes if k[2] == "built"})],
    )


if __name__ == "__main__":
    engine.main(PROP, run_tier, replay_case, eval_block)
