"""C11 - protfilter and parsing flags only filter; they never change what is framed.

Differential oracle over every byte string B(SIGMA, L) and every token sequence (frames with
embedded foreign preambles, noise, fragments) up to a depth: for each of the 8 masks F,
items(F) == [x for x in items(7) if protocol(x.raw) in F]; with parsing=False, on sequences
of accepted frames the raw sequence equals that of parsing=True and every parsed value is None.
"""
from mc import boot  # noqa: F401
from mc import engine, streams
from mc.streams import TOKENS, run_reader, item_sigs, raw_class

PROP = "C11"
ALPHABET = streams.FRAME_TOKENS + streams.NOISE_TOKENS + streams.FRAG_TOKENS
BASES = [
    dict(quitonerror=0, parsing=True),
    dict(quitonerror=1, handler=True, parsing=True),
    dict(quitonerror=0, parsing=False),
    dict(quitonerror=1, handler=True, parsing=False, validate=0),
    dict(quitonerror=0, parsing=True, msgmode=1, validate=0),
    dict(quitonerror=0, parsing=True, msgmode=3),
]
_VT = {}


def vt(cfg):
    k = (cfg.get("msgmode", 0), cfg.get("validate", 1))
    if k not in _VT:
        _VT[k] = streams.verdict_table(cfg)
    return _VT[k]


def run_mask(data, base, mask):
    cfg = dict(base)
    cfg["protfilter"] = mask
    return run_reader(data, cfg, use_iter=True)


def judge(data, base, accepted_seq=False):
    """All 8 masks against mask 7.  Returns ([(key, detail, mask)], runs)."""
    out = []
    r7 = run_mask(data, base, 7)
    if r7.horizon:
        return out, 1, None
    # (errors are never raised in these configurations: an exception that escapes the all-protocols reader is C08's
    # to report, but what that reader yielded before it is still "the items yielded with all protocols enabled")
    died = r7.raised is not None
    full = item_sigs(r7)
    n = 1
    # the 8 filtered readers are all constructed first and drained round-robin (live readers must not
    # influence one another); the reference run above used a reader of its own
    cfgs = []
    for mask in range(8):
        c = dict(base)
        c["protfilter"] = mask
        cfgs.append(c)
    group = streams.run_group(data, cfgs)
    for mask in range(8):
        r = group[mask]
        n += 1
        if r.raised is not None and not died:
            out.append((f"raised|mask={mask}|{type(r.raised).__name__}", str(r.raised)))
            continue
        if r.horizon:
            out.append((f"no_termination|mask={mask}", ""))
            continue
        got = item_sigs(r)
        want = [x for x in full if raw_class(x[0]) & mask]
        if got != want:
            extra = [x for x in got if x not in want]
            lost = [x for x in want if x not in got]
            kind = "extra_item" if extra else ("lost_item" if lost else "order")
            cls = raw_class((extra or lost or got or want)[0][0])
            out.append((f"filter_changes_framing|{kind}|class={cls}|parsing={base['parsing']}" + ("|all_protocols_reader_raised" if died else ""),
                        f"mask={mask} got={[x[0].hex() for x in got]} want={[x[0].hex() for x in want]}"))
    if accepted_seq and not died:
        # parsing=False vs parsing=True on a sequence of accepted frames
        bt = dict(base); bt["parsing"] = True; bt["protfilter"] = 7
        bf = dict(base); bf["parsing"] = False; bf["protfilter"] = 7
        rt, rf = run_reader(data, bt, use_iter=True), run_reader(data, bf, use_iter=True)
        n += 2
        if [x[0] for x in rt.items] != [x[0] for x in rf.items]:
            out.append(("parsing_false_changes_framing", f"true={[x[0].hex() for x in rt.items]} false={[x[0].hex() for x in rf.items]}"))
        if any(p is not None for _, p in rf.items):
            out.append(("parsing_false_returns_parsed", ""))
    return out, n, full


def is_accepted_seq(seq, cfg):
    t = vt(cfg)
    return len(seq) > 0 and all(TOKENS[x][1] == "frame" and t[x][0] == "ok" for x in seq)


def run_data(tok, n):
    return TOKENS[tok][2] * n + streams.seq_bytes(("Uack", "N1", "R1"))


def replay_case(case):
    if case.get("run"):
        out, _, _ = judge(run_data(*case["run"]), case["base"], False)
        return [(k + "|long_run", d[:200]) for k, d in out]
    if case.get("devs"):
        data = bytes.fromhex(case["stream"])
        devs = {int(k): v for k, v in case["devs"].items()}
        base = case["base"]
        c7 = dict(base); c7["protfilter"] = 7
        full = item_sigs(run_reader(data, c7, stream=streams.DevStream(data, devs)))
        c = dict(base); c["protfilter"] = case["mask"]
        got = item_sigs(run_reader(data, c, stream=streams.DevStream(data, devs)))
        want = [x for x in full if raw_class(x[0]) & case["mask"]]
        return [] if got == want else [(f"filter_changes_framing|short_read|parsing={base['parsing']}", "")]
    data = bytes.fromhex(case["stream"])
    out, _, _ = judge(data, case["base"], case.get("accepted_seq", False))
    return [(k, d) for k, d in out]


def eval_block(block, acc):
    if block[0] == "bytes":
        it = ((d, None) for d in streams.iter_block(tuple(block[1]) if block[1][0] == "short" else ("pre", block[1][1], block[1][2])))
    elif block[0] == "short":
        # one deviation: the i-th stream call answered short; the 8 masks must still only filter
        first = block[1]
        for seq in [(first,)] + [(first, t) for t in streams.FRAME_TOKENS]:
            data = streams.seq_bytes(seq)
            for base in BASES[:3]:
                c7 = dict(base); c7["protfilter"] = 7
                ncalls = run_reader(data, c7).calls
                for i in range(ncalls):
                    devs = {i: 1}
                    r7 = run_reader(data, c7, stream=streams.DevStream(data, devs))
                    if r7.raised is not None or r7.horizon:
                        continue
                    full = item_sigs(r7)
                    for mask in range(7):
                        c = dict(base); c["protfilter"] = mask
                        r = run_reader(data, c, stream=streams.DevStream(data, devs))
                        acc.evaluations += 1
                        acc.transitions += 1
                        got = item_sigs(r)
                        want = [x for x in full if raw_class(x[0]) & mask]
                        if r.raised is None and not r.horizon and got != want:
                            acc.violation(f"filter_changes_framing|short_read|parsing={base['parsing']}", {"stream": data.hex(), "tokens": list(seq), "base": base, "devs": {str(i): 1}, "mask": mask}, f"mask={mask} got={[x[0].hex()[:16] for x in got]} want={[x[0].hex()[:16] for x in want]}")
        return
    elif block[0] == "swallow":
        it = ((streams.seq_bytes(sq), None) for sq in streams.swallow_seqs())
    elif block[0] == "runs":
        # 1,100 consecutive frames of one protocol (more than Python's recursion limit), then one frame of each
        tok, n = block[1], block[2]
        for base in BASES:
            out, m, full = judge(run_data(tok, n), base, False)
            acc.evaluations += m
            acc.transitions += m
            acc.outcomes[("run", tok)] += 1
            for key, detail in out:
                acc.violation(key + "|long_run", {"run": [tok, n], "base": base}, detail[:200])
        return
    elif block[0] == "long":
        it = ((streams.seq_bytes(s), s) for s in streams.long_seqs(streams.LONG_NEIGHBOURS))
    else:
        _, first, k = block
        seqs = [()] if first is None else ((first,) + t for t in streams.token_seqs(k - 1, ALPHABET))
        it = ((streams.seq_bytes(s), s) for s in seqs)
    for data, seq in it:
        for base in BASES:
            aseq = bool(seq) and is_accepted_seq(seq, base)
            out, n, full = judge(data, base, aseq)
            acc.evaluations += n
            acc.transitions += n
            acc.nstates += 8
            if aseq:
                acc.extra["accepted_frame_sequences"] += 1
            if full is not None:
                acc.outcomes[tuple(sorted({raw_class(x[0]) for x in full}))] += 1
            for key, detail in out:
                acc.violation(key, {"stream": data.hex(), "tokens": list(seq) if seq else None, "base": base, "accepted_seq": aseq}, detail)
        if seq and len(seq) == 2 and len(acc.samples) < 1:
            acc.sample({"tokens": list(seq), "masks": 8, "bases": len(BASES)})


def run_tier(tier, t0):
    q = tier == "quick"
    L, k = (5, 3) if q else (6, 4)
    blocks = [("bytes", list(b)) for b in streams.byte_blocks(L)]
    blocks += [("tokens", None, 0)] + [("tokens", f, k) for f in ALPHABET]
    blocks.append(("long",))
    blocks += [("short", f) for f in streams.FRAME_TOKENS]
    blocks.append(("swallow",))
    blocks += [("runs", t, 1100) for t in ("N1", "Uack", "R1", "Nbad")]
    acc = engine.sweep(blocks, eval_block)
    engine.finish(
        PROP, tier, acc, t0, replay_case,
        rule=(
            f"every byte string of length<={L} over the 8-symbol alphabet and every sequence of <= {k} tokens over {len(ALPHABET)} tokens "
            f"x 8 protocol masks x {len(BASES)} base configurations (parsing on/off, ignore/log, validate, msgmode); differential against mask 7. "
            "distinct_nontrivial = distinct sets of protocols present in the unfiltered output"
        ),
        assumptions=[
            "protocol of a raw item = reference classifier of its first two bytes (pynmeagps.NMEA_HDR for NMEA)",
            "extra rings: headers announcing far more data than follows (length field >= 0x8000) before two frames; boundary-length and content-refused frames between neighbour pairs; single short reads; runs of 1,100 consecutive frames of one protocol followed by one frame of each protocol",
        ],
        vacuity=[
            ("streams with all three protocols present", (1, 2, 4) in acc.outcomes),
            ("accepted-frame sequences explored", acc.extra["accepted_frame_sequences"] > 0),
        ],
        extra_cov={"bounds": {"L": L, "token_depth": k}},
    )


if __name__ == "__main__":
    engine.main(PROP, run_tier, replay_case, eval_block)
