#!/usr/bin/env python3
"""Confirm a seeded property-breaking change and run the checks against it.

usage: seedcheck.py SEED_DIR [--checks C06,C07|all|auto] [--tier quick] [--no-tests]

SEED_DIR holds patch.diff, demo.py and meta.json (property, needs, ...).  In a scratch copy of
/repo (outside /repo and /verif, removed afterwards) this script
  1. runs demo.py on the unchanged copy           -> must exit 0
  2. applies patch.diff, runs the repository's test-suite -> must pass (229 tests)
  3. runs demo.py on the changed copy             -> must fail
  4. runs the requested checks (PYUBX2_SRC=<copy>/src) and records which report a VIOLATION
and writes the outcome into SEED_DIR/meta.json under "confirmation" and "detection".
'auto' = the check of the property the seed targets plus its usual neighbours.
"""
import argparse, json, os, shutil, subprocess, sys, tempfile, time

ROOT = os.path.dirname(os.path.dirname(os.path.abspath(__file__)))
PY = "/venv/bin/python"


def sh(cmd, cwd, env=None, timeout=3600):
    r = subprocess.run(cmd, cwd=cwd, env=env, capture_output=True, text=True, timeout=timeout)
    return r.returncode, r.stdout, r.stderr


def main():
    ap = argparse.ArgumentParser()
    ap.add_argument("seed")
    ap.add_argument("--checks", default="all")
    ap.add_argument("--tier", default="quick")
    ap.add_argument("--no-tests", action="store_true")
    a = ap.parse_args()
    sd = os.path.abspath(a.seed)
    meta_path = os.path.join(sd, "meta.json")
    meta = json.load(open(meta_path)) if os.path.exists(meta_path) else {}
    man = json.load(open(os.path.join(ROOT, "MANIFEST.json")))
    allc = [c["property_id"] for c in man["checks"]]
    checks = allc if a.checks == "all" else ([meta.get("property")] if a.checks == "auto" else a.checks.split(","))
    d = tempfile.mkdtemp(prefix="pyubx2_seed_", dir="/tmp")
    conf = {}
    try:
        subprocess.run(["rsync", "-a", "--exclude", ".git", "--exclude", "htmlcov", "--exclude", "docs", "--exclude", "__pycache__", "/repo/", d + "/"], check=True)
        subprocess.run(["git", "init", "-q"], cwd=d, check=True)
        env = dict(os.environ)
        env.pop("PYUBX2_SRC", None)
        env["PYTHONPATH"] = d + "/src"
        demo = os.path.join(sd, "demo.py")
        rc0, o0, e0 = sh([PY, demo], d, env)
        conf["demo_on_unchanged_rc"] = rc0
        rc, o, e = sh(["git", "apply", "--whitespace=nowarn", os.path.join(sd, "patch.diff")], d)
        if rc:
            rc, o, e = sh(["patch", "-p1", "--binary", "-i", os.path.join(sd, "patch.diff")], d)
        conf["patch_applies"] = rc == 0
        if rc:
            print("PATCH FAILED", o, e)
            meta["confirmation"] = conf
            json.dump(meta, open(meta_path, "w"), indent=1)
            return 3
        if not a.no_tests:
            rc, o, e = sh([PY, "-m", "pytest", "-q", "-p", "no:cacheprovider", "--timeout=900", "--no-cov"], d, env)
            failed = sorted(l.split()[1] for l in o.splitlines() if l.startswith("FAILED "))
            # testNMEA fails on the unchanged tree too (BASELINE.json: always_fail); everything else must pass
            conf["tests_failed_with_change"] = failed
            conf["tests_rc_with_change"] = 0 if set(failed) <= {"tests/test_stream.py::StreamTest::testNMEA"} and "passed" in o else (rc or 1)
            conf["tests_tail"] = (o.strip().splitlines() or [""])[-1]
        rc1, o1, e1 = sh([PY, demo], d, env)
        conf["demo_with_change_rc"] = rc1
        conf["demo_with_change_tail"] = ((o1 + e1).strip().splitlines() or [""])[-1][:300]
        conf["confirmed"] = bool(rc0 == 0 and rc1 != 0 and conf.get("tests_rc_with_change", 0) == 0)
        print("CONFIRMATION", json.dumps(conf))
        env2 = dict(os.environ)
        env2["PYUBX2_SRC"] = d + "/src"
        env2["VERIF_EVIDENCE_DIR"] = d + "/evidence"
        env2["VERIF_REPLAY_DIR"] = d + "/replays"
        env2.setdefault("VERIF_SLOW_STOP_S", "180")  # a change that makes the library pathologically slow: stop once violations are established
        det = meta.get("detection", {})
        for c in checks:
            t = time.time()
            rc, o, e = sh([PY, "-m", f"checks.{c.lower()}", "--tier", a.tier], ROOT, env2, timeout=2400)
            keys = [l.strip()[4:].split(" cases=")[0] for l in o.splitlines() if l.startswith("  key=")]
            if rc == 1 and "VIOLATION property=" not in o:
                rc = 3  # the check crashed: not a detection
            det[c] = {"rc": rc, "tier": a.tier, "wall_s": round(time.time() - t, 1), "keys": keys[:8], "n_keys": len(keys)}
            print(f"{c}: rc={rc} {time.time() - t:.1f}s {keys[:3]}")
            if rc not in (0, 1):
                print(o[-800:], e[-800:])
        meta["confirmation"] = conf
        meta["detection"] = det
        meta["detected_by"] = sorted(c for c, v in det.items() if v["rc"] == 1)
        meta["ran"] = f"tools/seedcheck.py (scratch copy of /repo under /tmp, removed afterwards); tests: repository suite minus testNMEA; checks at tier {a.tier}"
        json.dump(meta, open(meta_path, "w"), indent=1)
        print("DETECTED_BY", ",".join(meta["detected_by"]) or "NONE")
        return 0
    finally:
        shutil.rmtree(d, ignore_errors=True)


if __name__ == "__main__":
    sys.exit(main())
