#!/usr/bin/env python3
"""Import a sub-agent's deliverables (/tmp/seed/out_<P>*) into /verif/seeded/<id>/ and write meta.json.
usage: seedimport.py OUT_DIR SEED_ID PROPERTY"""
import json, os, shutil, sys
out, sid, prop = sys.argv[1:4]
dst = os.path.join(os.path.dirname(os.path.dirname(os.path.abspath(__file__))), "seeded", sid)
os.makedirs(dst, exist_ok=True)
for f in ("patch.diff", "demo.py", "notes.md"):
    shutil.copy(os.path.join(out, f), os.path.join(dst, f))
notes = open(os.path.join(dst, "notes.md")).read()
meta = {"id": sid, "property": prop, "origin": "independent sub-agent given only the property text and a scratch worktree",
        "needs_to_manifest": notes.strip()[:1500]}
json.dump(meta, open(os.path.join(dst, "meta.json"), "w"), indent=1)
print("imported", dst)
