"""setup_cmd: nothing to build (pure Python); verify the interpreter, the binding to /repo and the offline deps."""
from mc import boot  # noqa: F401
import pynmeagps, pyrtcm, pyubx2
print("setup ok: pyubx2", pyubx2.version, "from", pyubx2.__file__, "| pynmeagps", pynmeagps.version, "| pyrtcm", pyrtcm.version)
