#!/usr/bin/env python3
"""Run checks against a scratch copy of /repo with a patch applied (never touches /repo).

usage: mutrun.py PATCH [--checks C06,C07|all] [--tests] [--tier quick] [--keep]
  copies /repo (working tree, without .git/htmlcov/docs) to /tmp/pyubx2_mut_<pid>, applies PATCH there
  (git apply, tolerant of CRLF), optionally runs the repository's test-suite on the copy, runs the
  requested checks with PYUBX2_SRC pointing at the copy, prints one line per check, removes the copy.
"""
import argparse, json, os, shutil, subprocess, sys, tempfile, time

ROOT = os.path.dirname(os.path.dirname(os.path.abspath(__file__)))

def main():
    ap = argparse.ArgumentParser()
    ap.add_argument("patch")
    ap.add_argument("--checks", default="all")
    ap.add_argument("--tests", action="store_true")
    ap.add_argument("--tier", default="quick")
    ap.add_argument("--keep", action="store_true")
    ap.add_argument("--reverse", action="store_true")
    a = ap.parse_args()
    man = json.load(open(os.path.join(ROOT, "MANIFEST.json")))
    allc = [c["property_id"] for c in man["checks"]]
    checks = allc if a.checks == "all" else a.checks.split(",")
    d = tempfile.mkdtemp(prefix="pyubx2_mut_", dir="/tmp")
    try:
        subprocess.run(["rsync", "-a", "--exclude", ".git", "--exclude", "htmlcov", "--exclude", "docs", "--exclude", "__pycache__", "/repo/", d + "/"], check=True)
        subprocess.run(["git", "init", "-q"], cwd=d, check=True)
        cmd = ["git", "apply", "--whitespace=nowarn"] + (["-R"] if a.reverse else []) + [os.path.abspath(a.patch)]
        r = subprocess.run(cmd, cwd=d, capture_output=True, text=True)
        if r.returncode:
            r = subprocess.run(["patch", "-p1", "--binary", "-i", os.path.abspath(a.patch)] + (["-R"] if a.reverse else []), cwd=d, capture_output=True, text=True)
            if r.returncode:
                print("PATCH FAILED", r.stdout, r.stderr); return 3
        if a.tests:
            env = dict(os.environ); env.pop("PYUBX2_SRC", None)
            env["PYTHONPATH"] = d + "/src"
            r = subprocess.run(["/venv/bin/python", "-m", "pytest", "-q", "-p", "no:cacheprovider", "--timeout=900", "-q", "--no-cov"], cwd=d, capture_output=True, text=True, env=env)
            tail = [l for l in r.stdout.strip().splitlines() if l.strip()][-1:] if r.stdout.strip() else [r.stderr[-300:]]
            failed = sorted(l.split()[1] for l in r.stdout.splitlines() if l.startswith("FAILED "))
            ok = set(failed) <= {"tests/test_stream.py::StreamTest::testNMEA"} and "passed" in r.stdout
            print(f"TESTS {'PASS (only the baseline failure testNMEA)' if ok else 'FAIL'} {tail}")
            if r.returncode:
                print("\n".join(l for l in r.stdout.splitlines() if l.startswith("FAILED"))[:2000])
        res = {}
        procs = {}
        env = dict(os.environ); env["PYUBX2_SRC"] = d + "/src"
        env["VERIF_EVIDENCE_DIR"] = d + "/evidence"
        env["VERIF_REPLAY_DIR"] = d + "/replays"
        for c in checks:
            t = time.time()
            p = subprocess.run(["/venv/bin/python", "-m", f"checks.{c.lower()}", "--tier", a.tier], cwd=ROOT, capture_output=True, text=True, env=env)
            v = [l for l in p.stdout.splitlines() if l.startswith("VIOLATION") or l.startswith("  key=") or l.startswith("BROKEN")]
            print(f"{c}: rc={p.returncode} {time.time()-t:.1f}s " + (" | ".join(v[:6]) + (f" (+{len(v)-6} more lines)" if len(v) > 6 else "") if v else ""))
            if p.returncode not in (0, 1):
                print(p.stdout[-1500:], p.stderr[-1500:])
            res[c] = p.returncode
        det = [c for c, rc in res.items() if rc == 1]
        print("DETECTED_BY", ",".join(det) if det else "NONE")
        return 0
    finally:
        if not a.keep:
            shutil.rmtree(d, ignore_errors=True)

if __name__ == "__main__":
    sys.exit(main())
