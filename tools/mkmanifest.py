#!/usr/bin/env python3
"""Regenerate /verif/MANIFEST.json from the table below and validate it against the schema."""
import json, os, subprocess, sys
ROOT = os.path.dirname(os.path.dirname(os.path.abspath(__file__)))
PY = "/venv/bin/python"

# id: (technique, level text, level note, design_ref)
CHECKS = {
 "C07": ("bounded exhaustive exploration of the real reader over all byte strings / token sequences up to a length bound x reader configurations; invariant oracle on every execution",
         "No execution of UBXReader.read() over any byte string of the stated alphabet and length bound, under any of the enumerated reader configurations, returns a raw item that is not an ordered, non-overlapping, preamble-led slice of the input or reports end-of-stream with unread data. Exhaustive within the bound, not a proof beyond it.",
         "io.BytesIO as the stream; pynmeagps.NMEA_HDR as the list of NMEA preambles; strings longer than the bound and bytes outside the 8-symbol alphabet are reached only through token sequences.",
         "DESIGN.md §5 C07"),
}
NOT_YET = "check not built yet in this round (planned: see DESIGN.md §5)"

def main():
    props = [json.loads(l) for l in open(os.path.join(ROOT, "properties.jsonl"))]
    checks, na = [], []
    for p in props:
        pid = p["id"]
        if pid in CHECKS:
            tech, text, note, ref = CHECKS[pid]
            mod = f"checks.{pid.lower()}"
            checks.append({
                "property_id": pid,
                "quick_cmd": f"{PY} -m {mod} --tier quick",
                "thorough_cmd": f"{PY} -m {mod} --tier thorough",
                "evidence_file": f"/verif/evidence/{pid}.json",
                "replay_cmd_template": f"{PY} -m {mod} --replay {{path}}",
                "engine": "mc-explorer",
                "level_claimed": {"category": "model_checking", "text": text, "design_ref": ref},
                "level_note": note,
                "technique": tech,
            })
        else:
            na.append({"property_id": pid, "reason": NA.get(pid, NOT_YET)})
    man = {
        "version": 1,
        "setup_cmd": f"{PY} -m tools.setup_check",
        "hooks": {
            "guard": "PYUBX2_VERIF",
            "enable": "no source hooks exist: every observation is harness-side (recording stream, socket subclass, sys.settrace, fd capture); checks export PYUBX2_VERIF=1 and import pyubx2 from /repo/src (or $PYUBX2_SRC)",
            "baseline_off_cmd": "cd /repo && /venv/bin/python -m pytest -ra -q -p no:cacheprovider --timeout=900 --continue-on-collection-errors",
            "source_commits": [],
            "add_only": True,
        },
        "engines": [{
            "name": "mc-explorer", "path": "/verif/mc",
            "serves_properties": sorted(CHECKS),
            "kind_free_text": "hand-written bounded exhaustive explorer for Python: sharded product/lattice enumeration, choice-point DFS with deviation bounds and state merging (recv segmentations, thread preemptions), reference model in Python, replay files",
        }],
        "checks": checks,
        "notes": "All checks run the real code from /repo/src (current working tree). exit 0 = property held on everything explored, 1 = VIOLATION line(s), 2 = the check itself is broken (harness error / vacuous exploration). Known findings: /verif/known_findings.json.",
        "not_applicable": na,
    }
    path = os.path.join(ROOT, "MANIFEST.json")
    json.dump(man, open(path, "w"), indent=1)
    r = subprocess.run(["python3-vt", "-c", "import json,jsonschema,sys;jsonschema.validate(json.load(open(sys.argv[1])),json.load(open('/root/.vp/MANIFEST.schema.json')));print('MANIFEST valid')", path])
    sys.exit(r.returncode)

NA = {}
if __name__ == "__main__":
    main()
