#!/usr/bin/env python3
"""Regenerate /verif/MANIFEST.json from the table below and validate it against the schema."""
import json, os, subprocess, sys
ROOT = os.path.dirname(os.path.dirname(os.path.abspath(__file__)))
PY = "/venv/bin/python"

# id: (technique, level text, level note, design_ref)
CHECKS = {
 "C07": ("bounded exhaustive exploration of the real reader over all byte strings / token sequences up to a length bound x reader configurations; plus every program of <= 3 consumption operations (read / next / for) and streams of frames with equal header and checksum bytes, and a resync ring (all sequences of <= 4 of stray preamble bytes, rejected / good / first-byte-missing frames); invariant oracle on every execution",
         "No execution of UBXReader.read() over any byte string of the stated alphabet and length bound or token sequence, under any of the enumerated reader configurations - and under every single short read of the stream (one deviation) - returns a raw item that is not an ordered, non-overlapping, preamble-led slice of the input or reports end-of-stream with unread data. Exhaustive within the bound, not a proof beyond it.",
         "io.BytesIO as the stream; pynmeagps.NMEA_HDR as the list of NMEA preambles; strings longer than the bound and bytes outside the 8-symbol alphabet are reached only through token sequences.",
         "DESIGN.md §5 C07"),
 "C06": ("bounded exhaustive exploration of the real reader over all token sequences (frames of three protocols, accepted/rejected, noise) up to a depth x configurations; expected output known by construction",
         "For every sequence of up to the stated number of frame/noise tokens (incl. frames at the length boundaries of each protocol's framing, rejected frames that contain foreign frames, NMEA input the parser answers with None) and every enumerated configuration, ITERATING the reader yields exactly the frames their protocol parser accepts, in order, with the parser's result, then ends with the stream consumed.",
         "pynmeagps/pyrtcm parsers decide acceptance of NMEA/RTCM tokens; token alphabet is fixed (14 frames, 5 noise); depth bound.",
         "DESIGN.md §5 C06"),
 "C09": ("crash-point enumeration: every cut position of every byte string / token sequence up to a bound, executed on the real reader; runs of > 1,000 rejected items at sparse cuts; prefix oracle against the uncut run (which itself must end without raising)",
         "No cut of any enumerated stream - read from BytesIO, from a pipe-like non-seekable stream or from a minimal read/readline object - yields an item sequence that is not a prefix of the uncut output, raises, leaves bytes unread, or (for clean sequences) loses a frame that ends before the cut.",
         "BytesIO(S[:k]) models the cut stream; items compared by type/str/serialize.",
         "DESIGN.md §5 C09"),
 "C11": ("bounded exhaustive exploration over byte strings / token sequences x all 8 masks x parsing on/off; differential oracle against mask 7",
         "For every enumerated stream and base configuration, each mask's output (8 readers constructed together and iterated round-robin) equals the unfiltered output restricted to the mask's protocols; parsing=False leaves framing unchanged on accepted-frame sequences and returns no parsed values.",
         "reference classifier of the first two bytes decides an item's protocol.",
         "DESIGN.md §5 C11"),
 "C12": ("bounded exhaustive exploration over token sequences and byte strings x quitonerror(3) x handler present/absent; by-construction handler-event oracle plus differential oracle between policies",
         "For every enumerated stream, and under every single short read of it: IGNORE and LOG deliver identical items; under LOG the handler (or the logger, if absent) is called exactly once per rejected frame token, in order, with the parser's exception, never for a delivered one; under RAISE the items before the first error event are delivered and that same exception is raised.",
         "exception identity compared by class name and message; log records captured at the root logger.",
         "DESIGN.md §5 C12"),
 "C10": ("schedule enumeration of the environment: state-merged DFS over every recv() answer (chunk size) on the real SocketWrapper+UBXReader x bufsize x end condition; differential oracle against the file-stream run plus read/readline contracts",
         "For every enumerated byte sequence, every segmentation into recv() chunks, every listed bufsize and end condition, the socket run yields the same items as io.BytesIO, read(n) returns n bytes or nothing, readline() stops at the next LF, and the wrapper's output is a prefix of the input.",
         "state merging keyed on real buffer bytes + history hash (cross-checked unmerged on short streams); no real TCP / OS scheduling involved; end conditions only after the last byte.",
         "DESIGN.md §5 C10"),
 "C02": ("bounded exhaustive exploration of the real parser over every routed definition x group-count vectors x one-field-at-a-time boundary values x variant discriminators/lengths x both bitfield views; oracle = independent reference layout walker + scalar codec",
         "For every (mode, definition) the tables ship (all variants), every enumerated group count and boundary value, and both bitfield views, the parsed message exposes exactly the names the reference layout predicts, in order, each equal to the reference decoding of its bytes, and the identity is the message-ID table's name.",
         "reference model in /verif/mc/refmodel/layout.py written from the README grammar; interior values of 4/8-byte fields and simultaneous extremes are not enumerated; scaled values accepted within 0.5e-12 (documented rounding).",
         "DESIGN.md §5 C02"),
 "C01": ("bounded exhaustive exploration of the real parser/serializer over all 65,536 class/IDs x short lengths and every named class/ID x every length 0..nominal+16 x fills x msgmode x bitfield view; round-trip oracle incl. eval(repr)",
         "Every frame of the enumerated spaces that parse accepts re-serializes to the input bytes, reports the frame's class, ID, length and payload, and eval(repr(msg)) serializes identically.",
         "frames built with an independent Fletcher implementation; payload contents limited to 4 fill patterns; count-amplifying (class/ID, fill) pairs explored at boundary lengths only (listed in evidence).",
         "DESIGN.md §5 C01"),
 "C08": ("bounded exhaustive exploration: C01's frame spaces with both validate settings, all byte strings over a header alphabet handed to parse, and byte/token streams under the full configuration product; oracle = exception class + inspection + deterministic termination horizon",
         "No enumerated input makes parse raise anything but a UBX* error or return a message that cannot be inspected; no enumerated stream/configuration makes iteration exceed the horizon, raise under IGNORE/LOG, or raise a non-protocol exception under RAISE.",
         "60 s watchdog for a single call; horizon 4*len+16 stream calls; inputs outside the enumerated alphabets/lengths not covered.",
         "DESIGN.md §5 C08"),
 "C05": ("fault enumeration: every single-byte substitution/insertion/deletion/truncation, bursts and (short frames) double substitutions over a family of valid frames incl. all 65,536 zero-length frames, plus all byte strings over a header alphabet; uniform payloads of every length with all single-byte checksum corruptions; oracle = reference well-formedness predicate (VALNONE clause: same attributes, payload and serialization as the intact frame)",
         "No enumerated corruption of any family frame and no enumerated byte string is accepted by parse(validate=VALCKSUM) unless it is itself a well-formed frame; every malformed one is refused with UBXParseError; with VALNONE a corrupted checksum does not change identity or attributes.",
         "reference framing and Fletcher in mc/refmodel/core.py; substitution values limited to 9 boundary bytes for long frames (quick: also for most zero-length frames).",
         "DESIGN.md §5 C05"),
 "C16": ("exhaustive walk of every node of every definition table of the working tree against the README grammar and namespace rule, plus nominal build+parse of every routed (message, mode) in both bitfield views",
         "Every shipped definition obeys the grammar (types, flag widths, group sizes by earlier top-level integer, one trailing variable-by-size group, unique keyword-addressable names, no collision with UBXMessage attributes) and a nominal instance of every routed (message, mode) can be built and parsed with one attribute per named field.",
         "grammar as written in README; entries no API route can reach are grammar-checked only; known findings: FOO-BAR test fixture, parsebitfield=0 with flag-sized groups.",
         "DESIGN.md §5 C16"),
 "C17": ("exhaustive enumeration of every SET/POLL definition x conforming payload shapes x generation routes on the real code; and, per class/ID defined in both modes, SET-then-POLL / POLL-then-SET histories in freshly forked processes; differential oracle true-mode parse vs SETPOLL parse",
         "For every SET/POLL definition and every enumerated conforming payload the library can generate, parsing with SETPOLL returns the same mode, identity, attributes and bytes as parsing with the true mode (11 listed known findings: empty SET payloads, AID-ALM/AOP/EPH polls with members).",
         "conformance decided by the reference layout; payload contents limited to two fills; counted groups up to 3 members, variable-by-size up to 16.",
         "DESIGN.md §5 C17"),
 "C18": ("exhaustive / lattice enumeration of the real scalar codec per attribute type and of each helper over its domain (all 1-/2-byte values, byte lattices, all 65,536 float high halves, all byte strings up to a bound for checksums, every millisecond of windows or of a week, all mask/bitfield pairs, all 2-byte prefixes); oracle = reference codec + inverse laws",
         "Over the enumerated domains val2bytes/bytes2val are inverses with the type's width, out-of-range values are refused, nomval encodes to zeros, calc_checksum/isvalid_checksum equal the reference Fletcher, and utc2itow/itow2utc, val2sphp, get_bits, protocol, att2idx/att2name satisfy their consistency laws.",
         "interior values of 3..8-byte types outside the lattice are not enumerated; NaN payloads compared modulo quieting (O13); known finding: wrong-length C values accepted.",
         "DESIGN.md §5 C18"),
 "C14": ("bounded exhaustive exploration of config_set/config_del/config_poll and the CFG-VALSET/CFG-VALGET parser over every database key x addressing x value sets x list lengths 0..64(+) x header values x unknown IDs; oracle = reference config-db codec",
         "For every key, both addressings, every enumerated value, list and header, the helpers emit exactly header + LE32 key IDs (+ values at the size-code width), refuse more than 64 items and out-of-range values, and parsing the payload as CFG-VALSET or CFG-VALGET response exposes one correctly named attribute per key with its value; name/ID lookups agree.",
         "reference codec in the check; 4/8-byte values on boundary sets; aliases resolve to the first database name.",
         "DESIGN.md §5 C14"),
 "C03": ("bounded exhaustive exploration of the real keyword constructor: every (type, scale) pair over all 1-/2-byte raw values (lattice + window for wider), every keyword-constructible definition x boundary raws per field x whole-message rebuilds x attribute subsets x group counts x both bitfield views; oracle = reference layout encoder and parse-then-rebuild identity",
         "For every enumerated raw value, payload and attribute subset, feeding the parser-reported values back regenerates the payload (reserved bits aside) and keyword construction equals the reference encoding with omitted attributes zero - except the listed known findings (truncation of val/scale pinned by the repository's tests; scales below 2**-39 destroyed by 12-decimal rounding).",
         "reference encoder in mc/refmodel/layout.py; variable-by-size groups empty under keywords (O16); _HP pairs fed as components (O6); 4-byte raws on lattice + window only.",
         "DESIGN.md §5 C03"),
 "C15": ("bounded exhaustive exploration of the real keyword constructor over every attribute of every keyword-constructible definition x ~42 hostile Python values (one deviation) + hostile flag pairs (two deviations) x both bitfield views; oracle = UBX error or exact reference encoding",
         "Every enumerated hostile value is either refused with UBXMessageError/UBXTypeError or encoded exactly as the reference codec prescribes with all other fields untouched and the payload length implied by the definition; no other exception type escapes (known finding: wrong-length values for C fields).",
         "reference codec decides whether a value fits; bool counts as int; scaled fields may differ by one unit; large legitimate group counts (>1000) skipped for cost.",
         "DESIGN.md §5 C15"),
 "C04": ("bounded exhaustive exploration of every construction route (keywords, payload, config helpers, no-keyword) x addressing form (names, ints, bytes) over every routed definition / named class-ID; plus all schedules (<= 1 preemption, cooperative line-event scheduler) of 15 pairs of constructions as two real threads; oracle = independent framing + Fletcher + acceptance by parse",
         "Every message built in the enumerated spaces serializes to b5 62 + class + ID + LE length equal to the actual payload length + payload + reference Fletcher checksum, is accepted by parse in the same mode with identical re-serialization, and the three addressing forms give identical frames.",
         "independent framing in mc/refmodel/core.py; attribute values limited to boundary values; payload contents to fill patterns.",
         "DESIGN.md §5 C04"),
 "C13": ("three explorations on the real code: exhaustive set/delete of every attribute name of a message per definition; explicit-state search over an operation alphabet of ~1,500 events where every history is built from the pristine import state in a forked child (deep digest of the definition/config tables, fd-level output capture, each event's result vs the event alone; all adjacent pairs of events sharing a class/ID; length-2/3 histories with a probe set); iterative preemption-bounded enumeration of thread schedules (sys.settrace line-level cooperative scheduler) for colliding operation pairs/triples",
         "No attribute of any enumerated message can be set or deleted (UBXMessageError, message unchanged); no event of the alphabet changes the digest of pyubx2's module state or writes to fd 1/2, and no history of the explored depth changes a probe result; for every explored pair/triple of colliding operations every schedule with at most the stated number of line-level preemptions gives each thread its sequential result.",
         "digest covers data reachable from pyubx2 module globals (not pynmeagps/pyrtcm); preemptions only at source-line boundaries inside pyubx2; bound 1 in quick, 2 (capped) in thorough.",
         "DESIGN.md §5 C13"),
}
NOT_YET = "check not built yet in this round (planned: see DESIGN.md §5)"

def main():
    props = [json.loads(l) for l in open(os.path.join(ROOT, "properties.jsonl"))]
    checks, na = [], []
    for p in props:
        pid = p["id"]
        if pid in CHECKS:
            tech, text, note, ref = CHECKS[pid]
            mod = f"checks.{pid.lower()}"
            checks.append({
                "property_id": pid,
                "quick_cmd": f"{PY} -m {mod} --tier quick",
                "thorough_cmd": f"{PY} -m {mod} --tier thorough",
                "evidence_file": f"/verif/evidence/{pid}.json",
                "replay_cmd_template": f"{PY} -m {mod} --replay {{path}}",
                "engine": "mc-explorer",
                "level_claimed": {"category": "model_checking", "text": text, "design_ref": ref},
                "level_note": note,
                "technique": tech,
            })
        else:
            na.append({"property_id": pid, "reason": NA.get(pid, NOT_YET)})
    man = {
        "version": 1,
        "setup_cmd": f"{PY} -m tools.setup_check",
        "hooks": {
            "guard": "PYUBX2_VERIF",
            "enable": "no source hooks exist: every observation is harness-side (recording stream, socket subclass, sys.settrace, fd capture); checks export PYUBX2_VERIF=1 and import pyubx2 from /repo/src (or $PYUBX2_SRC)",
            "baseline_off_cmd": "cd /repo && /venv/bin/python -m pytest -ra -q -p no:cacheprovider --timeout=900 --continue-on-collection-errors",
            "source_commits": [],
            "add_only": True,
        },
        "engines": [{
            "name": "mc-explorer", "path": "/verif/mc",
            "serves_properties": sorted(CHECKS),
            "kind_free_text": "hand-written bounded exhaustive explorer for Python: sharded product/lattice enumeration, choice-point DFS with deviation bounds and state merging (recv segmentations, thread preemptions), reference model in Python, replay files",
        }],
        "checks": checks,
        "notes": "All checks run the real code from /repo/src (current working tree). exit 0 = property held on everything explored, 1 = VIOLATION line(s), 2 = the check itself is broken (harness error / vacuous exploration). Known findings: /verif/known_findings.json.",
        "not_applicable": na,
    }
    path = os.path.join(ROOT, "MANIFEST.json")
    json.dump(man, open(path, "w"), indent=1)
    r = subprocess.run(["python3-vt", "-c", "import json,jsonschema,sys;jsonschema.validate(json.load(open(sys.argv[1])),json.load(open('/root/.vp/MANIFEST.schema.json')));print('MANIFEST valid')", path])
    sys.exit(r.returncode)

NA = {}
if __name__ == "__main__":
    main()
