#!/usr/bin/env python3
"""Exact-string replacement that preserves a file's line endings (the repository mixes CRLF and LF).
usage: bedit.py FILE OLD NEW   (OLD/NEW use \n; they are converted to the file's convention)"""
import sys
p, old, new = sys.argv[1:4]
s = open(p, newline="").read()
crlf = "\r\n" in s
if crlf:
    old = old.replace("\r\n", "\n").replace("\n", "\r\n")
    new = new.replace("\r\n", "\n").replace("\n", "\r\n")
n = s.count(old)
if n != 1:
    sys.exit(f"expected exactly one occurrence, found {n}")
open(p, "w", newline="").write(s.replace(old, new))
