#!/usr/bin/env python3
"""Create a patch (unified diff, -p1, relative to /repo) that replaces OLD by NEW in FILE (CRLF-safe).
usage: mkmut.py OUT.diff FILE OLD NEW [FILE OLD NEW ...]"""
import os, shutil, subprocess, sys, tempfile
out = sys.argv[1]
triples = sys.argv[2:]
d = tempfile.mkdtemp(prefix="mkmut_", dir="/tmp")
try:
    subprocess.run(["rsync", "-a", "--exclude", ".git", "--exclude", "htmlcov", "--exclude", "__pycache__", "/repo/src", d + "/"], check=True)
    subprocess.run("git init -q && git add -A && git -c user.email=a@b -c user.name=x commit -qm base", shell=True, cwd=d, check=True)
    for i in range(0, len(triples), 3):
        f, old, new = triples[i:i+3]
        r = subprocess.run([sys.executable, os.path.join(os.path.dirname(__file__), "bedit.py"), os.path.join(d, f), old, new])
        if r.returncode: sys.exit(r.returncode)
    diff = subprocess.run(["git", "diff"], cwd=d, capture_output=True).stdout
    open(out, "wb").write(diff)
    print(f"wrote {out} ({len(diff)} bytes)")
finally:
    shutil.rmtree(d, ignore_errors=True)
