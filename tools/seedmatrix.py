#!/usr/bin/env python3
"""Print the detection matrix of /verif/seeded/*/meta.json as a markdown table (for DESIGN.md §10.4)."""
import glob, json, os
ROOT = os.path.dirname(os.path.dirname(os.path.abspath(__file__)))
rows = []
for mp in sorted(glob.glob(os.path.join(ROOT, "seeded", "*", "meta.json"))):
    m = json.load(open(mp))
    conf = m.get("confirmation", {})
    det = m.get("detection", {})
    by = [c for c, v in sorted(det.items()) if v.get("rc") == 1]
    ran = sorted(det)
    own = m.get("property")
    keys = (det.get(own, {}).get("keys") or [""])[0] if own in det else ""
    rows.append((m.get("id"), own, m.get("origin", "")[:11], "yes" if conf.get("confirmed") else "NO", ",".join(by) or "none", len(ran), keys[:70], (m.get("summary") or m.get("needs_to_manifest", "")).split("\n")[0][:110]))
print("| seed | property | confirmed (tests pass, demo fails) | detected by (quick tier) | checks run | first finding key of the property's own check |")
print("|---|---|---|---|---|---|")
for r in rows:
    key = r[6].replace("|", "\\|")
    print(f"| {r[0]} | {r[1]} | {r[3]} | {r[4]} | {r[5]} | `{key}` |")
