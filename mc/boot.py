"""Bind the checks to the working tree of the repository under test.

Every check imports this module first.  It
  * re-executes the interpreter with PYTHONHASHSEED=0 if that is not already set,
  * puts ${PYUBX2_SRC:-/repo/src} at sys.path[0],
  * imports pyubx2 and asserts that it was loaded from that directory
    (so the check always sees the current working tree, never an installed copy),
  * exports the guard variable PYUBX2_VERIF=1 (no hook in the repository reads it today).
"""
import os
import sys

SRC = os.environ.get("PYUBX2_SRC", "/repo/src")

if os.environ.get("PYTHONHASHSEED") != "0":
    os.environ["PYTHONHASHSEED"] = "0"
    os.environ.setdefault("PYUBX2_VERIF", "1")
    os.execve(sys.executable, [sys.executable] + sys.orig_argv[1:], os.environ)

os.environ.setdefault("PYUBX2_VERIF", "1")
sys.dont_write_bytecode = True
if sys.path[0] != SRC:
    sys.path.insert(0, SRC)

import pyubx2  # noqa: E402

_real = os.path.realpath(os.path.dirname(pyubx2.__file__))
if not _real.startswith(os.path.realpath(SRC)):
    print(f"BROKEN: pyubx2 imported from {_real}, expected under {SRC}")
    sys.exit(2)

VERIF_ROOT = os.path.dirname(os.path.dirname(os.path.abspath(__file__)))
SEED = int(os.environ.get("VERIF_SEED", "0") or 0)
WORKERS = int(os.environ.get("VERIF_WORKERS", "0") or 0) or min(16, os.cpu_count() or 1)
