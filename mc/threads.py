"""Thread driver: real threading.Thread workers under a cooperative scheduler.

sys.settrace delivers a 'line' event for every source line executed inside the pyubx2 package;
at each event the running thread asks the explorer whether to continue or to hand the baton
(one semaphore per thread) to another thread.  Exactly one thread runs at any time, so an
execution is a deterministic function of the schedule (the list of choices).  Switching away
from a thread that could continue costs one preemption; the explorer bounds preemptions.
"""
import os
import sys
import threading

from mc import boot  # noqa: F401

PKG_DIR = os.path.join(os.path.realpath(boot.SRC), "pyubx2") + os.sep
PKG_PREFIXES = tuple({PKG_DIR, os.path.join(boot.SRC, "pyubx2") + os.sep})


class Abort(BaseException):
    pass


class Scheduler:
    def __init__(self, fns, chooser, bound=None):
        self.bound = bound  # preemption budget: once spent, later line events are not choice points
        self.fns = fns
        self.ch = chooser
        self.n = len(fns)
        self.sems = [threading.Semaphore(0) for _ in fns]
        self.done = [False] * self.n
        self.started = [False] * self.n
        self.results = [None] * self.n
        self.inside = [None] * self.n
        self.current = None
        self.points = 0
        self.preemptions = 0
        self.both_in_walk = False
        self.finished = threading.Semaphore(0)
        self.error = None

    # -- tracing ------------------------------------------------------------------------
    def _global_trace(self, tid):
        def local(frame, event, arg):
            if self.bound is not None and self.preemptions >= self.bound:
                return None  # budget spent: no further choice points, run at full speed
            if event == "line":
                self.inside[tid] = frame.f_code.co_name
                self.point(tid)
            return local

        def glob(frame, event, arg):
            if self.bound is not None and self.preemptions >= self.bound:
                sys.settrace(None)
                return None
            if event == "call" and frame.f_code.co_filename.startswith(PKG_PREFIXES):
                return local
            return None

        return glob

    def enabled(self):
        return [i for i in range(self.n) if not self.done[i]]

    def note_overlap(self, tid):
        me = self.inside[tid]
        if me and me.startswith("_set_attribute") and not self.both_in_walk:
            for j in range(self.n):
                if j != tid and self.started[j] and not self.done[j] and (self.inside[j] or "").startswith("_set_attribute"):
                    self.both_in_walk = True

    def point(self, tid):
        """Scheduling point of the running thread."""
        self.points += 1
        en = self.enabled()
        if len(en) <= 1:
            return
        self.note_overlap(tid)
        order = [tid] + [i for i in en if i != tid]
        c = self.ch.choose(len(order), "sched", costs=[0] + [1] * (len(order) - 1))
        nxt = order[c]
        if nxt != tid:
            self.preemptions += 1
            if (self.inside[tid] or "").startswith("_set_attribute") and not self.done[nxt]:
                self.both_in_walk = True  # tid is parked inside the walk while nxt runs its own
            self.current = nxt
            self.sems[nxt].release()
            self.sems[tid].acquire()

    def _body(self, tid):
        self.sems[tid].acquire()
        self.started[tid] = True
        sys.settrace(self._global_trace(tid))
        try:
            try:
                self.results[tid] = ("ok", self.fns[tid]())
            except Exception as e:  # noqa: BLE001
                self.results[tid] = ("exc", type(e).__name__, str(e))
        except BaseException as e:  # noqa: BLE001  (explorer pruning etc.)
            self.error = e
        finally:
            sys.settrace(None)
            self.done[tid] = True
            en = self.enabled()
            if en:
                # thread ended: choosing the next runnable thread is not a preemption
                try:
                    c = self.ch.choose(len(en), "end", costs=[0] * len(en)) if len(en) > 1 else 0
                except BaseException as e:  # noqa: BLE001
                    self.error = e
                    c = 0
                nxt = en[c]
                self.current = nxt
                self.sems[nxt].release()
            else:
                self.finished.release()

    def run(self):
        threads = [threading.Thread(target=self._body, args=(i,), daemon=True) for i in range(self.n)]
        for t in threads:
            t.start()
        first = self.ch.choose(self.n, "start", costs=[0] * self.n) if self.n > 1 else 0
        self.current = first
        self.sems[first].release()
        if not self.finished.acquire(timeout=120):
            raise RuntimeError("scheduler deadlock/timeout: no enabled thread made progress")
        for t in threads:
            t.join(timeout=10)
        if self.error is not None:
            raise self.error
        return self.results
