"""Stream driver: recording stream, reader runs, byte-level and token-level stream families."""
import io
import itertools
import logging

from mc import boot  # noqa: F401  (binds pyubx2 to the working tree)
from mc.refmodel import core as ref

import pynmeagps
import pyrtcm
from pynmeagps import NMEA_HDR, NMEAReader
from pyrtcm import RTCMReader
import pyubx2
from pyubx2 import UBXReader

# frame-relevant byte alphabet (DESIGN §4.3)
SIGMA = (0xB5, 0x62, 0x24, 0x47, 0xD3, 0x00, 0x01, 0x0A)

PROTO_ERRORS = tuple(
    getattr(m, n)
    for m in (pyubx2.exceptions, pynmeagps.exceptions, pyrtcm.exceptions)
    for n in dir(m)
    if isinstance(getattr(m, n), type) and issubclass(getattr(m, n), Exception)
)
UBX_ERRORS = tuple(
    getattr(pyubx2.exceptions, n)
    for n in dir(pyubx2.exceptions)
    if isinstance(getattr(pyubx2.exceptions, n), type)
    and issubclass(getattr(pyubx2.exceptions, n), Exception)
)



class _LogCapture(logging.Handler):
    """Collects every log record emitted anywhere (root logger) - used when no error handler is given."""

    def __init__(self):
        super().__init__(level=0)
        self.records = []

    def emit(self, record):
        self.records.append((record.name, record.levelname, record.getMessage()))


LOGCAP = _LogCapture()
logging.getLogger().addHandler(LOGCAP)


class Horizon(BaseException):
    """The reader exceeded the deterministic call horizon (livelock)."""


class RecStream(io.BytesIO):
    """BytesIO that counts calls and enforces a horizon."""

    def __init__(self, data: bytes):
        super().__init__(data)
        self.calls = 0
        self.horizon = 4 * len(data) + 16

    def read(self, n=-1):
        self.calls += 1
        if self.calls > self.horizon:
            raise Horizon()
        return super().read(n)

    def readline(self, n=-1):
        self.calls += 1
        if self.calls > self.horizon:
            raise Horizon()
        return super().readline(n)


class NonSeekable(io.IOBase):
    """A pipe-like stream: readable, not seekable; tell()/seek() raise like they do on a pipe or FIFO."""

    def __init__(self, data: bytes):
        super().__init__()
        self._b = io.BytesIO(data)
        self.calls = 0
        self.horizon = 4 * len(data) + 16

    def _tick(self):
        self.calls += 1
        if self.calls > self.horizon:
            raise Horizon()

    def read(self, n=-1):
        self._tick()
        return self._b.read(n)

    def readline(self, n=-1):
        self._tick()
        return self._b.readline(n)

    def readable(self):
        return True

    def seekable(self):
        return False

    def tell(self):
        raise OSError(29, "Illegal seek")

    def seek(self, *a):
        raise OSError(29, "Illegal seek")

    @property
    def pos(self):
        return self._b.tell()


class Minimal:
    """The least a 'viable data stream' offers: read(n) and readline() only."""

    def __init__(self, data: bytes):
        self._b = io.BytesIO(data)
        self.calls = 0
        self.horizon = 4 * len(data) + 16

    def read(self, n=-1):
        self.calls += 1
        if self.calls > self.horizon:
            raise Horizon()
        return self._b.read(n)

    def readline(self, n=-1):
        self.calls += 1
        if self.calls > self.horizon:
            raise Horizon()
        return self._b.readline(n)

    @property
    def pos(self):
        return self._b.tell()


class Buffered(io.BufferedReader):
    """What open(path, 'rb') returns: a BufferedReader (has peek(), read1(), readinto() besides read/readline)."""

    def __init__(self, data: bytes):
        super().__init__(io.BytesIO(data))
        self.calls = 0
        self.horizon = 4 * len(data) + 16

    def _tick(self):
        self.calls += 1
        if self.calls > self.horizon:
            raise Horizon()

    def read(self, n=-1):
        self._tick()
        return super().read(n)

    def readline(self, n=-1):
        self._tick()
        return super().readline(n)


STREAM_KINDS = {"bytesio": RecStream, "nonseekable": NonSeekable, "minimal": Minimal, "buffered": Buffered}


class DevStream(RecStream):
    """Stream whose answers deviate at chosen call indices: a read(n) or readline() answered short
    (fewer bytes than asked although more data follows - e.g. a serial timeout).  devs: {call index: length}."""

    def __init__(self, data: bytes, devs: dict):
        super().__init__(data)
        self.devs = devs
        self.deviated = 0

    def read(self, n=-1):
        i = self.calls
        if i in self.devs and n is not None and n > 1:
            k = max(1, min(self.devs[i], n - 1))
            self.deviated += 1
            return super().read(k)
        return super().read(n)

    def readline(self, n=-1):
        i = self.calls
        if i in self.devs:
            pos = self.tell()
            line = super().readline(n)
            k = max(1, min(self.devs[i], len(line) - 1))
            if len(line) > 1:
                self.deviated += 1
                self.seek(pos + k)
                return line[:k]
            return line
        return super().readline(n)


class PauseStream(RecStream):
    """A stream that is momentarily empty at chosen call indices (a log file being written, a serial port or
    pipe with nothing pending): that call is answered b"" without consuming anything; later calls continue."""

    def __init__(self, data: bytes, pauses):
        super().__init__(data)
        self.pauses = set(pauses)
        self.paused = 0

    def read(self, n=-1):
        if self.calls in self.pauses:
            self.calls += 1
            self.paused += 1
            return b""
        return super().read(n)

    def readline(self, n=-1):
        if self.calls in self.pauses:
            self.calls += 1
            self.paused += 1
            return b""
        return super().readline(n)


import socket as _socket  # noqa: E402


class ChunkSocket(_socket.socket):
    """A socket that delivers the data in chunks of a fixed size, then ends (close / timeout)."""

    def __init__(self, data, chunk, end="close"):  # pylint: disable=super-init-not-called
        self.data, self.chunk, self.p, self.after, self.end = data, chunk, 0, 0, end

    def recv(self, n, *a):
        if self.p >= len(self.data):
            self.after += 1
            if self.after > 64:
                raise Horizon()
            if self.end == "timeout":
                raise TimeoutError("timed out")
            return b""
        out = self.data[self.p : self.p + min(n, self.chunk)]
        self.p += len(out)
        return out

    def close(self):
        pass

    def __del__(self):
        pass


def sig(parsed):
    """Comparable form of a parsed item (O3): type name + text + bytes."""
    if parsed is None:
        return None
    try:
        s = str(parsed)
    except Exception as e:  # judged by C08, not here
        s = f"<str raised {type(e).__name__}>"
    try:
        b = parsed.serialize().hex()
    except Exception as e:
        b = f"<serialize raised {type(e).__name__}>"
    return (type(parsed).__name__, s, b)


class Run:
    __slots__ = ("items", "errors", "raised", "tell", "calls", "size", "horizon", "events", "logrecs")

    def __init__(self):
        self.items = []
        self.errors = []
        self.events = []  # interleaved ('item', i) / ('err', j)
        self.raised = None
        self.horizon = False


def cfg_kwargs(cfg, handler=None):
    kw = dict(
        msgmode=cfg.get("msgmode", 0),
        validate=cfg.get("validate", 1),
        protfilter=cfg.get("protfilter", 7),
        quitonerror=cfg.get("quitonerror", 0),
        parsebitfield=cfg.get("parsebitfield", 1),
        parsing=cfg.get("parsing", True),
    )
    if handler is not None:
        kw["errorhandler"] = handler
    if "bufsize" in cfg:
        kw["bufsize"] = cfg["bufsize"]
    return kw


def run_reader(data: bytes, cfg: dict, stream=None, max_items=None, use_iter=False) -> Run:
    """Read `data` to exhaustion through a real UBXReader (read() loop, or the iterator protocol
    when use_iter is set).  Never raises."""
    r = Run()
    st = stream if stream is not None else RecStream(data)
    handler = None
    if cfg.get("handler") == "object":
        # an error handling *object*: callable, and (being an empty collection) falsy until first used
        class _Collector(list):
            def __call__(self, err, r=r):
                self.append(err)
                r.errors.append(err)
                r.events.append(("err", len(r.errors) - 1))
        handler = _Collector()
    elif cfg.get("handler"):
        def handler(err, r=r):
            r.errors.append(err)
            r.events.append(("err", len(r.errors) - 1))
    try:
        rd = UBXReader(st, **cfg_kwargs(cfg, handler))
        limit = max_items if max_items is not None else len(data) + 4
        it = iter(rd) if use_iter else None
        while True:
            if use_iter:
                try:
                    raw, parsed = next(it)
                except StopIteration:
                    break
            else:
                raw, parsed = rd.read()
                if raw is None and parsed is None:
                    break
            r.items.append((raw, parsed))
            r.events.append(("item", len(r.items) - 1))
            if len(r.items) > limit:
                r.horizon = True
                break
    except Horizon:
        r.horizon = True
    except Exception as e:  # noqa: BLE001 - the oracle classifies it
        r.raised = e
    try:
        r.tell = st.pos if hasattr(st, "pos") else st.tell()
    except Exception:
        r.tell = None
    r.calls = getattr(st, "calls", 0)
    r.size = len(data)
    return r


def run_group(data: bytes, cfgs, use_iter=False):
    """Several readers over copies of the same data, all CONSTRUCTED first and then drained one item at
    a time in round-robin order: live readers must not influence one another.  Returns [Run]."""
    runs, readers, streams_, its = [], [], [], []
    for cfg in cfgs:
        r = Run()
        st = RecStream(data)
        handler = None
        if cfg.get("handler"):
            def handler(err, r=r):
                r.errors.append(err)
                r.events.append(("err", len(r.errors) - 1))
        try:
            rd = UBXReader(st, **cfg_kwargs(cfg, handler))
        except Exception as e:  # noqa: BLE001
            r.raised = e
            rd = None
        runs.append(r)
        readers.append(rd)
        streams_.append(st)
    live = [i for i, rd in enumerate(readers) if rd is not None]
    limit = len(data) + 4
    while live:
        for i in list(live):
            r, rd = runs[i], readers[i]
            try:
                raw, parsed = rd.read()
                if raw is None and parsed is None:
                    live.remove(i)
                    continue
                r.items.append((raw, parsed))
                r.events.append(("item", len(r.items) - 1))
                if len(r.items) > limit:
                    r.horizon = True
                    live.remove(i)
            except Horizon:
                r.horizon = True
                live.remove(i)
            except Exception as e:  # noqa: BLE001
                r.raised = e
                live.remove(i)
    for r, st in zip(runs, streams_):
        r.tell = st.tell()
        r.calls = st.calls
        r.size = len(data)
    return runs


def item_sigs(run: Run):
    return [(raw, sig(p)) for raw, p in run.items]


def exc_sig(e):
    return None if e is None else (type(e).__name__, str(e))


# --------------------------------------------------------------------------------------
# byte-level family B(SIGMA, L)
# --------------------------------------------------------------------------------------


def byte_blocks(L, split=2):
    """Blocks (prefix, maxlen) partitioning all strings over SIGMA of length <= L."""
    blocks = []
    for n in range(0, min(split, L + 1)):
        # strings shorter than the split are handled in a block of their own
        blocks.append(("short", n))
    if L >= split:
        for p in itertools.product(range(len(SIGMA)), repeat=split):
            blocks.append(("pre", list(p), L))
    return blocks


def iter_block(block):
    """All byte strings of a block."""
    if block[0] == "short":
        for t in itertools.product(SIGMA, repeat=block[1]):
            yield bytes(t)
        return
    _, p, L = block
    pre = bytes(SIGMA[i] for i in p)
    for n in range(0, L - len(pre) + 1):
        for t in itertools.product(SIGMA, repeat=n):
            yield pre + bytes(t)


# --------------------------------------------------------------------------------------
# token-level family T(k)
# --------------------------------------------------------------------------------------

_U0 = ref.frame(0, 0, b"")
_UACK = ref.frame(5, 1, b"\x06\x01")
_NMEA1 = ref.nmea_sentence("GNGLL,5327.04319,N,00214.41396,W,223232.00,A,A")
_R1005 = ref.rtcm_frame(bytes([0x3E, 0xD0]) + bytes(17))


def _bad(b: bytes, pos=-1) -> bytes:
    bb = bytearray(b)
    bb[pos] ^= 0x55
    return bytes(bb)


TOKENS = {
    # name: (protocol, kind, bytes)
    "U0": (ref.UBX, "frame", _U0),
    "Uack": (ref.UBX, "frame", _UACK),
    "Ucfg": (ref.UBX, "frame", ref.frame(6, 1, b"\xf0\x05")),
    "UcfgSet": (ref.UBX, "frame", ref.frame(6, 1, b"\xf0\x05\x00\x01\x00\x01\x00\x00")),  # same message type, SET-sized payload
    "Uinf": (ref.UBX, "frame", ref.frame(4, 2, _NMEA1 + b"\xb5\x62")),
    "Ubad": (ref.UBX, "frame", _bad(_UACK)),
    "Uunk": (ref.UBX, "frame", ref.frame(1, 0x12, bytes(range(36)))),  # NAV-VELNED: GET only
    "UinfBad": (ref.UBX, "frame", _bad(ref.frame(4, 2, _NMEA1 + b"\xb5\x62"))),  # bad checksum, payload holds an NMEA sentence
    "N1": (ref.NMEA, "frame", _NMEA1),
    "Nbad": (ref.NMEA, "frame", _bad(_NMEA1, -4)),
    "Npubx": (ref.NMEA, "frame", ref.nmea_sentence("PUBX,04,223232.00,040222,167552.00,2195,18,-9464,-23.0,21")),
    "Nunk": (ref.NMEA, "frame", ref.nmea_sentence("GNXXX,1,2,abc")),  # unknown sentence type, valid checksum
    "Nnostar": (ref.NMEA, "frame", b"$GNGLL,1,2\r\n"),  # no '*': pynmeagps returns None (no error) -> delivered as (raw, None)
    "R1": (ref.RTCM, "frame", _R1005),
    "R2": (ref.RTCM, "frame", ref.rtcm_frame(bytes([0x3E, 0xD0]))),
    "Rbad": (ref.RTCM, "frame", _bad(_R1005)),
    "Rz": (ref.RTCM, "frame", ref.rtcm_frame(b"")),
    "Remb": (ref.RTCM, "frame", ref.rtcm_frame(bytes([0x3E, 0xD0]) + _U0 + bytes(9))),
    "RembBad": (ref.RTCM, "frame", _bad(ref.rtcm_frame(bytes([0x3E, 0xD0]) + _UACK + b"$G" + bytes(5)))),  # bad CRC, payload holds a UBX frame
    "n00": (0, "noise", b"\x00"),
    "n62": (0, "noise", b"\x62"),
    "n0a": (0, "noise", b"\x0a"),
    "nff": (0, "noise", b"\xff"),
    "nabc": (0, "noise", b"abc"),
    "fb5": (0, "frag", b"\xb5"),
    "fb562": (0, "frag", b"\xb5\x62"),
    "fb56205": (0, "frag", b"\xb5\x62\x05"),
    "f24": (0, "frag", b"\x24"),
    "f2447": (0, "frag", b"\x24\x47"),
    "fd3": (0, "frag", b"\xd3"),
    "fd300": (0, "frag", b"\xd3\x00"),
}
# frames at the length boundaries of each protocol's framing (kept out of the deep enumerations)
_RT = bytes([0x3E, 0xD0])
LONG_TOKENS = {
    "R255": (ref.RTCM, "frame", ref.rtcm_frame(_RT + bytes(253))),
    "R256": (ref.RTCM, "frame", ref.rtcm_frame(_RT + bytes(254))),
    "R511": (ref.RTCM, "frame", ref.rtcm_frame(_RT + bytes(509))),
    "R512": (ref.RTCM, "frame", ref.rtcm_frame(_RT + bytes(510))),
    "R1023": (ref.RTCM, "frame", ref.rtcm_frame(_RT + bytes(i % 251 for i in range(1021)))),
    "U255": (ref.UBX, "frame", ref.frame(0x99, 0x01, bytes(i % 251 for i in range(255)))),
    "U256": (ref.UBX, "frame", ref.frame(0x99, 0x01, bytes(i % 251 for i in range(256)))),
    "U4096": (ref.UBX, "frame", ref.frame(0x99, 0x02, bytes(4096))),
    "Nlong": (ref.NMEA, "frame", ref.nmea_sentence("GNTXT,01,01,02," + "x" * 200)),
}
# frames that are well framed (valid checksum) but whose CONTENT the protocol parser refuses, one per error type
# the parsers raise for content (kept out of the deep enumerations, enumerated with the boundary-length frames)
ERR_TOKENS = {
    "Ntype": (ref.NMEA, "frame", ref.nmea_sentence("GNGGA,080247.00,5327.04300,N,00214.41385,W,x,07,1.63,36.7,M,48.5,M,,")),  # NMEATypeError
    "Utype": (ref.UBX, "frame", ref.frame(0x0B, 0x02, b"\x00")),  # AID-HUI cut inside a field: UBXTypeError
    "Umsg": (ref.UBX, "frame", ref.frame(0x06, 0x8B, bytes(9))),  # CFG-VALGET with key 0: UBXMessageError
    "Ugrp": (ref.UBX, "frame", ref.frame(0x02, 0x15, bytes(11) + b"\x02" + bytes(4) + bytes(32) + bytes(4))),  # RXM-RAWX announcing 2 group members, cut inside the 2nd (a float field)
    "Umga": (ref.UBX, "frame", ref.frame(0x13, 0x60, b"\x07" + bytes(7))),  # MGA-ACK with a type byte no definition exists for
    # zero-length RTCM3 frames with a wrong CRC whose last byte is a frame-start byte (all 6 bytes belong to the frame)
    "RzB5": (ref.RTCM, "frame", b"\xd3\x00\x00\x47\xea\xb5"),
    "Rz24": (ref.RTCM, "frame", b"\xd3\x00\x00\x47\xea\x24"),
    "RzD3": (ref.RTCM, "frame", b"\xd3\x00\x00\x47\xea\xd3"),
}
# frame headers that announce far more data than follows (length field >= 0x8000, or the RTCM3 maximum): they swallow
# whatever comes next, so they are used only by the differential checks (no by-construction expectation applies)
SWALLOW_TOKENS = {
    "sw_fff0": (0, "swallow", b"\xb5\x62\x01\x07\xf0\xff"),
    "sw_8000": (0, "swallow", b"\xb5\x62\x01\x07\x00\x80"),
    "sw_ffff": (0, "swallow", b"\xb5\x62\x05\x01\xff\xff"),
    "sw_7fff": (0, "swallow", b"\xb5\x62\x05\x01\xff\x7f"),
    "sw_rtcm": (0, "swallow", b"\xd3\x03\xff"),
}
# one well-formed sentence per first letter an NMEA talker can begin with (the set pynmeagps publishes as NMEA_HDR):
# BeiDou BD, integrated navigation IN, compass HC, Loran LC, ... (kept out of the deep enumerations)
def _talker_tokens():
    from pynmeagps import NMEA_TALKERS
    out = {}
    for hdr in sorted(NMEA_HDR):
        letter = hdr[1:2].decode()
        tk = next((t for t in sorted(NMEA_TALKERS) if t.startswith(letter) and len(t) == 2), letter + "X")
        body = "PUBX,00,1" if tk[0] == "P" else tk + "GLL,5327.04319,S,00214.41396,E,223232.00,A,A"
        out["Nt" + letter] = (ref.NMEA, "frame", ref.nmea_sentence(body))
    return out


# a well-formed frame without its first byte (kind "headless"): if the reader ever re-uses a byte it has already
# consumed (a held-over preamble byte), this tail is completed into a frame that is not in the stream.  None of them
# contains a frame-start byte.  Used only by the resync ring of C07.
HEADLESS_TOKENS = {
    "hU": (0, "headless", _UACK[1:]),
    "hN": (0, "headless", _NMEA1[1:]),
    "hR": (0, "headless", ref.rtcm_frame(bytes([0x3E, 0xD0]) + bytes(3))[1:]),
}
assert not any(set(v[2]) & {0xB5, 0x24, 0xD3} for v in HEADLESS_TOKENS.values())
RESYNC_ALPHABET = ["fb5", "f24", "fd3", "Ubad", "Nbad", "Rbad", "Uack", "N1", "R1", "hU", "hN", "hR"]
# UBX frames whose 16-bit length field has its top bit set (a signed read of the field turns them negative)
HUGE_TOKENS = {
    "U32767": (ref.UBX, "frame", ref.frame(0x99, 0x03, bytes(32767))),
    "U32768": (ref.UBX, "frame", ref.frame(0x99, 0x03, bytes(32768))),
    "U65535": (ref.UBX, "frame", ref.frame(0x99, 0x03, bytes(i % 251 for i in range(65535)))),
}
TALKER_TOKENS = _talker_tokens()
TOKENS.update(HEADLESS_TOKENS)
TOKENS.update(LONG_TOKENS)
TOKENS.update(ERR_TOKENS)
TOKENS.update(SWALLOW_TOKENS)
TOKENS.update(TALKER_TOKENS)
LONG_NAMES = list(LONG_TOKENS) + list(ERR_TOKENS) + list(TALKER_TOKENS)
HUGE_NAMES = list(HUGE_TOKENS)  # kept out of LONG_NAMES: rings that cut or re-chunk at every byte would be quadratic in 64 KiB
FRAME_TOKENS = [k for k, v in TOKENS.items() if v[1] == "frame" and k not in LONG_NAMES]
NOISE_TOKENS = [k for k, v in TOKENS.items() if v[1] == "noise"]
FRAG_TOKENS = [k for k, v in TOKENS.items() if v[1] == "frag"]


def token_verdict(name, cfg):
    """Standalone verdict of a frame token under a reader configuration (O4):
    ('ok', sig) or ('rej', exc_sig), by calling the protocol's own parser."""
    proto, kind, b = TOKENS[name]
    assert kind == "frame"
    try:
        if proto == ref.UBX:
            p = UBXReader.parse(
                b,
                msgmode=cfg.get("msgmode", 0),
                validate=cfg.get("validate", 1),
                parsebitfield=cfg.get("parsebitfield", 1),
            )
        elif proto == ref.NMEA:
            p = NMEAReader.parse(b, validate=cfg.get("validate", 1), msgmode=cfg.get("msgmode", 0))
        else:
            p = RTCMReader.parse(b, validate=cfg.get("validate", 1), labelmsm=1)
    except PROTO_ERRORS as e:
        return ("rej", exc_sig(e))
    except Exception as e:  # noqa: BLE001 - a foreign exception is a refusal too (C08 reports the class)
        return ("rej", ("foreign", type(e).__name__))
    return ("ok", sig(p))


def verdict_table(cfg):
    """Stand-alone verdict of every frame token, computed in a forked child: consulting the parsers about the
    tokens must not itself be part of the history of the process that explores the streams."""
    import os
    import pickle
    r, w = os.pipe()
    pid = os.fork()
    if pid == 0:
        try:
            os.close(r)
            with os.fdopen(w, "wb") as f:
                pickle.dump({t: token_verdict(t, cfg) for t in FRAME_TOKENS + LONG_NAMES}, f)
        finally:
            os._exit(0)
    os.close(w)
    with os.fdopen(r, "rb") as f:
        data = f.read()
    os.waitpid(pid, 0)
    return pickle.loads(data)


def token_seqs(k, alphabet):
    for n in range(0, k + 1):
        for t in itertools.product(alphabet, repeat=n):
            yield t


def swallow_seqs():
    """(a?, S, b, c) for every swallowing header S, optional frame before it and two frames after it."""
    nb = ["Uack", "N1", "R1", "Nbad"]
    for S in SWALLOW_TOKENS:
        for a in [None] + nb[:3]:
            for b in nb:
                for c in nb[:3]:
                    yield tuple(x for x in (a, S, b, c) if x is not None)


# long runs of noise (no frame-start byte): more single-byte discards in a row than Python's recursion limit
NOISE_RUNS = {
    "nFFx1500": (0, "noise", b"\xff" * 1500),
    "n00x3000": (0, "noise", b"\x00" * 3000),
    "nabcx500": (0, "noise", b"abc" * 500),
}
TOKENS.update(NOISE_RUNS)


def long_seqs(neighbours, huge=False):
    """(a?, L, b?) for every boundary-length token / long noise run L and every neighbour a, b (None = absent)."""
    nb = [None] + list(neighbours)
    for L in LONG_NAMES + list(NOISE_RUNS):
        for a in nb:
            for b in nb:
                yield tuple(x for x in (a, L, b) if x is not None)
    if huge:  # 64 KiB frames: a small fixed set of neighbourhoods (each execution costs ~0.1 s)
        for L in HUGE_NAMES:
            yield (L,)
            yield (L, "N1")
            yield ("Uack", L, "N1", "Uack")
            yield ("Rbad", L, "R1")


LONG_NEIGHBOURS = ["Uack", "Ubad", "N1", "R1", "Rbad", "n00", "nabc"]


def seq_bytes(seq):
    return b"".join(TOKENS[t][2] for t in seq)


def raw_class(raw: bytes) -> int:
    return ref.classify(raw, NMEA_HDR)
