"""Compare one real parse with the reference prediction (shared by C02, C01, C16, C17)."""
from mc import boot  # noqa: F401
from mc import catalogue as C
from mc.refmodel import core as ref, layout as L
from mc.streams import UBX_ERRORS

from pyubx2 import UBXReader


def public_attrs(msg, expected=None):
    """Public payload attributes in payload order.  Normally the instance dict; if an implementation
    keeps them elsewhere, fall back to the expected names that the message exposes (order unknown)."""
    names = [k for k in getattr(msg, "__dict__", {}) if not k.startswith("_")]
    if names or not expected:
        return names
    return [n for n in expected if hasattr(msg, n)]


def compare_parse(mode, clsid, payload, parsebf, label=None, msg=None):
    """Returns (status, violations, nattrs).  status in
    'ok' | 'skip-undefined' | 'skip-nonconforming' | 'skip-invalid-types' | 'viol'."""
    try:
        w, key = C.walk_frame(mode, clsid, payload, parsebf)
    except (KeyError, ValueError) as e:
        return "skip-invalid-types", [], 0
    if w is None:
        return "skip-undefined", [], 0
    label = label or f"{C.MODENAME[mode]}:{key}"
    if w.short or w.off != len(payload):
        return "skip-nonconforming", [], 0
    frame = ref.frame(clsid[0], clsid[1], payload)
    pb = f"pbf={int(bool(parsebf))}"
    try:
        if msg is None:  # (a message delivered by a reader may be passed in instead)
            msg = UBXReader.parse(frame, msgmode=mode, parsebitfield=parsebf)
    except UBX_ERRORS as e:
        return "viol", [(f"conforming_payload_refused|{label}|{pb}|{type(e).__name__}", f"{e}")], 0
    except Exception as e:  # noqa: BLE001  (C08 judges the class; for C02 it is a refusal too)
        return "viol", [(f"conforming_payload_refused|{label}|{pb}|{type(e).__name__}", f"{e}")], 0
    exp, dup = L.expected_attributes(w, C.CFGDB_BY_ID)
    out = []
    if len(payload) == 0:
        return "ok", [], 0  # null payload: no attributes required (O19)
    want = [n for n, _ in exp]
    names = public_attrs(msg, want)
    if names != want:
        missing = [n for n in want if n not in names]
        extra = [n for n in names if n not in want]
        if missing:
            out.append((f"attribute_missing|{label}|{pb}|{L_base(missing[0])}", f"missing {missing[:4]}"))
        if extra:
            out.append((f"attribute_unexpected|{label}|{pb}|{L_base(extra[0])}", f"unexpected {extra[:4]}"))
        if not missing and not extra:
            i = next(i for i in range(len(want)) if names[i] != want[i])
            out.append((f"attribute_order|{label}|{pb}|{L_base(want[i])}", f"position {i}: got {names[i]} want {want[i]}"))
    for nm in sorted(dup):
        out.append((f"two_defined_fields_exposed_under_one_name|{label}|{pb}|{L_base(nm)}", f"{nm} names more than one field of the definition; only one value can be exposed"))
    n = 0
    for nm, pred in exp:
        if nm not in names:
            continue
        n += 1
        got = getattr(msg, nm)
        if not L.value_matches(got, pred):
            out.append((f"attribute_value|{label}|{pb}|{L_base(nm)}", f"{nm}: got {got!r} want {pred!r}"))
    try:
        ident = msg.identity
    except Exception as e:  # noqa: BLE001
        ident = f"<raised {type(e).__name__}>"
    if ident != C.identity_of(clsid, payload):
        out.append((f"identity|{label}", f"got {ident} want {C.identity_of(clsid, payload)}"))
    return ("viol" if out else "ok"), out, n


def L_base(name):
    """attribute name without group suffixes (for finding keys)."""
    parts = name.split("_")
    while len(parts) > 1 and parts[-1].isdigit() and len(parts[-1]) >= 2:
        parts.pop()
    return "_".join(parts)
