"""Reference model, part 2: payload layout walker and scalar codec.

Written from the README's extensibility grammar and the u-blox conventions (little-endian,
two's complement, IEEE-754, LSB-first bit flags).  Plain Python: `struct`, `fractions`, integer
arithmetic.  It reads the definition *tables* of the working tree (passed in as plain dicts) but
imports no code from pyubx2.
"""
import math
import struct
from fractions import Fraction

GET, SET, POLL = 0, 1, 2


# ---------------------------------------------------------------------------------------
# types
# ---------------------------------------------------------------------------------------
def is_type(t) -> bool:
    return isinstance(t, str) and (t == "CH" or (len(t) == 4 and t[0].isalpha() and t[1:].isdigit()))


def tletter(t):
    return t[0]


def tsize(t) -> int:
    return int(t[1:4])


def is_bitfield_type(t) -> bool:
    return isinstance(t, str) and len(t) == 4 and t[0] == "X" and t[1:].isdigit()


def dec(raw: bytes, t: str):
    """Decode the bytes of one field of type t (full width assumed)."""
    if t == "CH":
        return raw.decode("utf-8", "backslashreplace")
    k = tletter(t)
    if k in "XC":
        return bytes(raw)
    if k in "UEL":
        return int.from_bytes(raw, "little", signed=False)
    if k == "I":
        return int.from_bytes(raw, "little", signed=True)
    if k == "R":
        return struct.unpack("<f" if tsize(t) == 4 else "<d", raw)[0]
    if k == "A":
        return list(raw)
    raise ValueError(f"type {t}")


def enc(val, t: str) -> bytes:
    """Encode an in-range value (raises ValueError/OverflowError/TypeError if it does not fit)."""
    if t == "CH":
        if not isinstance(val, (str, bytes)):
            raise TypeError
        return val.encode("utf-8", "backslashreplace") if isinstance(val, str) else val
    k, n = tletter(t), tsize(t)
    if k == "X":
        if not isinstance(val, bytes) or len(val) != n:
            raise ValueError
        return val
    if k == "C":
        b = val.encode("utf-8", "backslashreplace") if isinstance(val, str) else val
        if not isinstance(b, bytes) or len(b) != n:
            raise ValueError
        return b
    if k in "UEL":
        if not isinstance(val, int) or isinstance(val, bool) and False:
            raise TypeError
        return val.to_bytes(n, "little", signed=False)
    if k == "I":
        if not isinstance(val, int):
            raise TypeError
        return val.to_bytes(n, "little", signed=True)
    if k == "R":
        return struct.pack("<f" if n == 4 else "<d", float(val))
    if k == "A":
        if len(val) != n:
            raise ValueError
        return bytes(val)
    raise ValueError(f"type {t}")


def nominal(t):
    if t == "CH":
        return ""
    k, n = tletter(t), tsize(t)
    if k in "XC":
        return bytes(n)
    if k == "R":
        return 0.0
    if k == "A":
        return [0] * n
    return 0


def int_range(t):
    k, n = tletter(t), tsize(t)
    if k == "I":
        return (-(1 << (8 * n - 1)), (1 << (8 * n - 1)) - 1)
    return (0, (1 << (8 * n)) - 1)


def scaled_close(got, raw_int, scale) -> bool:
    """O1: got == raw*scale up to rounding at 12 decimals (+ a few ulp)."""
    if isinstance(got, bool) or not isinstance(got, (int, float)):
        return False
    if isinstance(got, float) and (math.isnan(got) or math.isinf(got)):
        return False
    exact = Fraction(raw_int) * Fraction(scale)
    tol = Fraction(1, 2 * 10**12) + abs(exact) * Fraction(4, 2**52) + Fraction(1, 10**15)
    return abs(Fraction(got) - exact) <= tol


# ---------------------------------------------------------------------------------------
# layout walk
# ---------------------------------------------------------------------------------------
class Field:
    __slots__ = ("name", "base", "off", "size", "typ", "scale", "bitoff", "bits", "kind", "exposed", "path")

    def __init__(self, **k):
        for a in self.__slots__:
            setattr(self, a, k.get(a))

    def __repr__(self):
        return f"Field({self.name},{self.kind},off={self.off},size={self.size},typ={self.typ},bit={self.bitoff}/{self.bits})"


def suffix(name, index):
    for i in index:
        if i > 0:
            name += f"_{i:02d}"
    return name


def group_member_size(gdict) -> int:
    """Byte size of one member of a flat group (members: plain, scaled, bitfields)."""
    n = 0
    for v in gdict.values():
        if isinstance(v, tuple):
            numr, sub = v
            if is_bitfield_type(numr):
                n += tsize(numr)
            else:
                raise ValueError("nested group inside variable-by-size group")
        elif isinstance(v, list):
            n += tsize(v[0])
        else:
            n += tsize(v)
    return n


class TooMany(Exception):
    """The walk would create more fields than the caller's cap (count amplification)."""


class Walk:
    """Walk a definition over a payload (decode) -> ordered fields, consumed length, short flag."""

    def __init__(self, pdict, payload: bytes, parsebf=True, special=None, counts=None, maxfields=None):
        self.maxfields = maxfields
        self.payload = payload
        self.parsebf = parsebf
        self.special = special
        self.fields = []
        self.vals = {}  # exposed attribute name -> raw decoded value (unscaled), for group counts
        self.short = False  # a field's slice ran past the end of the payload
        self.off = 0
        self.cfgitems = None
        self._walk(pdict, [])

    def _count(self, numr, gdict):
        if isinstance(numr, int):
            return numr
        if numr == "None":
            ms = group_member_size(gdict)
            return max(0, (len(self.payload) - self.off)) // ms if ms else 0
        n = self.vals.get(numr)
        if not isinstance(n, int):
            raise KeyError(f"group size attribute {numr} not available")
        if self.special == "esfmeas" and self.vals.get("calibTtagValid", 0):
            n += 1
        return n

    def _walk(self, d, index):
        for name, adef in d.items():
            if isinstance(adef, tuple):
                numr, sub = adef
                if is_bitfield_type(numr):
                    self._bitfield(name, numr, sub, index)
                elif self.special == "cfgval":
                    self._cfgval()
                else:
                    n = self._count(numr, sub)
                    if self.maxfields is not None and len(self.fields) + n * max(1, len(sub)) > self.maxfields:
                        raise TooMany()
                    for i in range(n):
                        self._walk(sub, index + [i + 1])
            else:
                self._single(name, adef, index)

    def _take(self, size):
        raw = self.payload[self.off : self.off + size]
        if len(raw) < size:
            self.short = True
        off = self.off
        self.off += size
        return off, raw

    def _single(self, name, adef, index):
        scale = 1
        t = adef
        if isinstance(adef, list):
            t, scale = adef[0], adef[1]
        size = len(self.payload) if t == "CH" else tsize(t)
        off, raw = self._take(size)
        nm = suffix(name, index)
        f = Field(name=nm, base=name, off=off, size=size, typ=t, scale=scale, kind="plain", exposed=True, path=tuple(index))
        self.fields.append(f)
        if len(raw) == size or t == "CH":
            try:
                self.vals[nm] = dec(raw, t)
            except Exception:  # noqa: BLE001
                self.short = True

    def _bitfield(self, name, btype, bdict, index):
        size = tsize(btype)
        off, raw = self._take(size)
        word = int.from_bytes(raw, "little")
        if not self.parsebf:
            nm = suffix(name, index)
            self.fields.append(Field(name=nm, base=name, off=off, size=size, typ=btype, scale=1, kind="plain", exposed=True, path=tuple(index)))
            # a group count may live in a flag even when flags are not exposed individually
            bo = 0
            for fname, ftype in bdict.items():
                bits = tsize(ftype)
                self.vals.setdefault(suffix(fname, index), (word >> bo) & ((1 << bits) - 1))
                bo += bits
            self.vals[nm] = bytes(raw)
            return
        bo = 0
        for fname, ftype in bdict.items():
            bits = tsize(ftype)
            nm = suffix(fname, index)
            exposed = not fname.startswith("reserved")
            self.fields.append(Field(name=nm, base=fname, off=off, size=size, typ=ftype, scale=1, kind="flag", bitoff=bo, bits=bits, exposed=exposed, path=tuple(index)))
            if exposed:
                self.vals[nm] = (word >> bo) & ((1 << bits) - 1)
            bo += bits

    def _cfgval(self):
        """Key/value list of CFG-VALGET (GET) / CFG-VALSET (SET): LE32 key id + value at size-code width."""
        self.cfgitems = []
        p = self.payload
        while len(p) - self.off >= 5:
            key = int.from_bytes(p[self.off : self.off + 4], "little")
            width = {1: 1, 2: 1, 3: 2, 4: 4, 5: 8}.get((key >> 28) & 7)
            if width is None:
                self.short = True
                break
            val = p[self.off + 4 : self.off + 4 + width]
            if len(val) < width:
                self.short = True
            self.cfgitems.append((key, self.off, width, val))
            self.off += 4 + width
        self.off = len(p) if not self.short else self.off


def expected_attributes(w: Walk, cfgdb_by_id=None):
    """Ordered (name, predicate-or-value) list the parser must expose for walk w.

    Returns list of (name, ('eq', v) | ('scaled', raw, scale) | ('hp', base_raw, base_scale, hp_raw, hp_scale)) in first-insertion order,
    and the set of names that several fields map to (shadowed).
    """
    order = []
    spec = {}
    dup = set()
    p = w.payload
    for f in w.fields:
        if not f.exposed:
            continue
        if f.kind == "flag":
            word = int.from_bytes(p[f.off : f.off + f.size], "little")
            v = ("eq", (word >> f.bitoff) & ((1 << f.bits) - 1))
            nm = f.name
        else:
            raw = p[f.off : f.off + f.size] if f.typ != "CH" else p[f.off :]
            val = dec(raw, f.typ)
            nm = f.name
            if nm.startswith("_HP"):
                tgt = nm[3:]
                prev = spec.get(tgt)
                if prev is None:
                    v = None
                else:
                    braw, bscale = (prev[1], prev[2]) if prev[0] == "scaled" else (prev[1], 1)
                    spec[tgt] = ("hp", braw, bscale, val, f.scale)
                continue
            if f.scale != 1:
                v = ("scaled", val, f.scale)
            else:
                v = ("eq", val)
        if nm in spec:
            dup.add(nm)
        else:
            order.append(nm)
        spec[nm] = v
    if w.cfgitems is not None:
        for key, off, width, val in w.cfgitems:
            ent = (cfgdb_by_id or {}).get(key)
            if ent is None:
                nm, v = f"CFG_{hex(key)}", ("eq", bytes(val))
            else:
                nm, t = ent
                v = ("eq", dec(val, t))
            if nm not in spec:  # (a key repeated in one message is the sender's doing, not the definition's)
                order.append(nm)
            spec[nm] = v
    return [(n, spec[n]) for n in order], dup


def value_matches(got, pred) -> bool:
    kind = pred[0]
    if kind == "eq":
        want = pred[1]
        if isinstance(want, float):
            if not isinstance(got, float):
                return False
            return struct.pack("<d", got) == struct.pack("<d", want) or (math.isnan(got) and math.isnan(want))
        return type(got) is type(want) and got == want
    if kind == "scaled":
        if isinstance(pred[1], float):  # scaled float field
            return isinstance(got, float) and (math.isnan(got) == math.isnan(pred[1])) and (
                math.isnan(got) or math.isinf(got) or abs(got - pred[1] * pred[2]) <= 1e-12 + abs(got) * 1e-9 or got == pred[1] * pred[2])
        return scaled_close(got, pred[1], pred[2])
    if kind == "hp":
        _, braw, bscale, hraw, hscale = pred
        if isinstance(got, bool) or not isinstance(got, (int, float)):
            return False
        exact = Fraction(braw) * Fraction(bscale) + Fraction(hraw) * Fraction(hscale)
        tol = Fraction(1, 10**12) + abs(exact) * Fraction(8, 2**52)
        return abs(Fraction(got) - exact) <= tol
    return False


# ---------------------------------------------------------------------------------------
# variant selection (reference): which table entry describes a payload
# ---------------------------------------------------------------------------------------
def select_entry(mode, clsid: bytes, payload: bytes, msgids):
    """Return (table_mode, table_key) for a frame of class/ID `clsid` in `mode`, or None if the
    message has no multi-variant rule (then the table key is the UBX_MSGIDS name)."""
    p = payload
    key = (mode, clsid)
    if key == (POLL, b"\x06\x31"):
        return (POLL, "CFG-TP5-TPX" if len(p) == 1 else "CFG-TP5")
    if clsid == b"\x02\x72" and mode in (GET, SET):
        return (SET, "RXM-PMP-V0" if p[0:1] == b"\x00" else "RXM-PMP-V1")
    if key == (SET, b"\x02\x41"):
        return (SET, "RXM-PMREQ" if len(p) == 16 else "RXM-PMREQ-S")
    if key == (SET, b"\x0d\x15"):
        return (SET, "TIM-VCOCAL-V0" if len(p) == 1 else "TIM-VCOCAL")
    if key == (SET, b"\x06\x06"):
        return (SET, "CFG-DAT-NUM" if len(p) == 2 else "CFG-DAT")
    if key == (GET, b"\x0b\x32"):
        return (GET, "AID-ALPSRV-SEND" if p[1:2] == b"\xff" else "AID-ALPSRV-REQ")
    if key == (GET, b"\x02\x59"):
        return (GET, "RXM-RLM-S" if p[1:2] == b"\x01" else "RXM-RLM-L")
    if key == (GET, b"\x06\x17"):
        return (GET, {4: "CFG-NMEAvX", 12: "CFG-NMEAv0"}.get(len(p), "CFG-NMEA"))
    if key == (GET, b"\x01\x60"):
        return (GET, "NAV-AOPSTATUS-L" if len(p) == 20 else "NAV-AOPSTATUS")
    if key == (GET, b"\x01\x3c"):
        return (GET, "NAV-RELPOSNED-V0" if p[0:1] == b"\x00" else "NAV-RELPOSNED")
    if key == (GET, b"\x27\x09"):
        return (GET, "SEC-SIG-V1" if p[0:1] == b"\x01" else "SEC-SIG-V2")
    return None


def special_of(mode, clsid):
    if clsid == b"\x06\x8b" and mode == GET or clsid == b"\x06\x8a" and mode == SET:
        return "cfgval"
    if clsid == b"\x10\x02" and mode == SET:
        return "esfmeas"
    return None


# ---------------------------------------------------------------------------------------
# reference encoder: keyword arguments -> payload
# ---------------------------------------------------------------------------------------
class Unfit(Exception):
    """The supplied value cannot be represented in its field."""

    def __init__(self, name, why):
        super().__init__(f"{name}: {why}")
        self.name = name


def raw_from_scaled(val, scale, t):
    """Integer raw value nearest to val/scale (exact rational arithmetic)."""
    if not isinstance(val, (int, float)):
        raise TypeError("scaled field needs a number")
    if isinstance(val, float) and (math.isnan(val) or math.isinf(val)):
        raise ValueError("nan/inf")
    q = Fraction(val) / Fraction(scale)
    r = math.floor(q + Fraction(1, 2))
    return r


def encode(pdict, kwargs, parsebf=True, special=None):
    """Reference payload for keyword construction.  Returns (payload, fields) where fields is the
    list of Field records in payload order.  Raises Unfit if a supplied value does not fit."""
    out = bytearray()
    fields = []
    vals = {}

    def single(name, adef, index):
        scale, t = 1, adef
        if isinstance(adef, list):
            t, scale = adef[0], adef[1]
        nm = suffix(name, index)
        v = kwargs.get(nm, nominal(t))
        try:
            if t == "CH":
                b = enc(v, t)
            elif scale != 1 and tletter(t) != "R":
                b = enc(raw_from_scaled(v, scale, t), t)
            elif scale != 1:
                b = enc(float(v) / scale, t)
            else:
                if tletter(t) in "UEIL" and (isinstance(v, bool) and False or not isinstance(v, int)):
                    raise TypeError("int required")
                if tletter(t) == "R" and (isinstance(v, bool) and False or not isinstance(v, (int, float))):
                    raise TypeError("number required")
                if tletter(t) == "A" and not isinstance(v, list):
                    raise TypeError("list required")
                b = enc(v, t)
        except (OverflowError, ValueError, TypeError, AttributeError, struct.error) as e:
            raise Unfit(nm, f"{type(e).__name__}: {e}") from e
        fields.append(Field(name=nm, base=name, off=len(out), size=len(b), typ=t, scale=scale, kind="plain", exposed=True, path=tuple(index)))
        out.extend(b)
        vals[nm] = v

    def bitfield(name, btype, bdict, index):
        size = tsize(btype)
        if not parsebf:
            nm = suffix(name, index)
            v = kwargs.get(nm, bytes(size))
            if not isinstance(v, bytes) or len(v) != size:
                raise Unfit(nm, "bitfield bytes of wrong type/length")
            fields.append(Field(name=nm, base=name, off=len(out), size=size, typ=btype, scale=1, kind="plain", exposed=True, path=tuple(index)))
            word = int.from_bytes(v, "little")
            bo = 0
            for fn, ft in bdict.items():
                bits = tsize(ft)
                vals.setdefault(suffix(fn, index), (word >> bo) & ((1 << bits) - 1))
                bo += bits
            out.extend(v)
            return
        word, bo = 0, 0
        off = len(out)
        for fn, ft in bdict.items():
            bits = tsize(ft)
            nm = suffix(fn, index)
            v = kwargs.get(nm, 0)
            if isinstance(v, bool) and False or not isinstance(v, int):
                raise Unfit(nm, "flag must be int")
            if v < 0 or v >= (1 << bits):
                raise Unfit(nm, f"flag value {v} does not fit {bits} bits")
            word |= v << bo
            fields.append(Field(name=nm, base=fn, off=off, size=size, typ=ft, scale=1, kind="flag", bitoff=bo, bits=bits, exposed=not fn.startswith("reserved"), path=tuple(index)))
            vals[nm] = v
            bo += bits
        out.extend(word.to_bytes(size, "little"))

    def walk(d, index):
        for name, adef in d.items():
            if isinstance(adef, tuple):
                numr, sub = adef
                if is_bitfield_type(numr):
                    bitfield(name, numr, sub, index)
                elif special == "cfgval":
                    raise Unfit(name, "payload-only message")
                else:
                    if isinstance(numr, int):
                        n = numr
                    elif numr == "None":
                        n = 0  # O16
                    else:
                        n = vals.get(numr, 0)
                        if not isinstance(n, int) or n < 0:
                            raise Unfit(numr, "group size")
                        if special == "esfmeas" and vals.get("calibTtagValid", 0):
                            n += 1
                    for i in range(n):
                        walk(sub, index + [i + 1])
            else:
                single(name, adef, index)

    walk(pdict, [])
    return bytes(out), fields
