"""Reference model, part 1: framing.  Plain Python, nothing imported from pyubx2."""


def fletcher8(content: bytes) -> bytes:
    """8-bit Fletcher checksum as defined in the u-blox interface description."""
    a = b = 0
    for c in content:
        a = (a + c) % 256
        b = (b + a) % 256
    return bytes((a, b))


def frame(cls: int, mid: int, payload: bytes) -> bytes:
    """Well-formed UBX frame."""
    body = bytes((cls, mid)) + len(payload).to_bytes(2, "little") + payload
    return b"\xb5\x62" + body + fletcher8(body)


def wellformed(x: bytes) -> bool:
    """b5 62, declared length == actual payload length, correct checksum."""
    return (
        len(x) >= 8
        and x[0:2] == b"\xb5\x62"
        and int.from_bytes(x[4:6], "little") == len(x) - 8
        and x[-2:] == fletcher8(x[2:-2])
    )


UBX, NMEA, RTCM, NONE = 2, 1, 4, 0


def classify(raw: bytes, nmea_hdr) -> int:
    """Protocol of a raw item judged by its first two bytes."""
    p = raw[0:2]
    if p == b"\xb5\x62":
        return UBX
    if len(p) == 2 and p[0] == 0x24 and p in nmea_hdr:
        return NMEA
    if len(p) == 2 and p[0] == 0xD3 and p[1] & 0xFC == 0:
        return RTCM
    return NONE


def crc24q(data: bytes) -> bytes:
    """RTCM3 CRC-24Q."""
    crc = 0
    for b in data:
        crc ^= b << 16
        for _ in range(8):
            crc <<= 1
            if crc & 0x1000000:
                crc ^= 0x1864CFB
    return (crc & 0xFFFFFF).to_bytes(3, "big")


def rtcm_frame(payload: bytes) -> bytes:
    hdr = b"\xd3" + len(payload).to_bytes(2, "big")
    return hdr + payload + crc24q(hdr + payload)


def nmea_sentence(body: str) -> bytes:
    """'$' + body + '*' + XOR checksum + CRLF."""
    ck = 0
    for c in body.encode("ascii"):
        ck ^= c
    return f"${body}*{ck:02X}\r\n".encode("ascii")
