"""Enumeration of well-formed frames shared by C01 and C08 (DESIGN §5 C01 spaces A, B, C)."""
from mc import boot  # noqa: F401
from mc import catalogue as C
from mc.refmodel import layout as L
from mc.refmodel.layout import GET, SET, POLL

from pyubx2 import UBX_MSGIDS

SETPOLL = 3
FILLS = {
    "00": lambda i: 0x00,
    "ff": lambda i: 0xFF,
    "inc": lambda i: (i + 1) & 0xFF,
    "55aa": lambda i: 0x55 if i % 2 == 0 else 0xAA,
    "ws": lambda i: (0x20, 0x0A, 0x0D, 0x09)[i % 4],  # whitespace / line ends (strip()-style normalisation)
    "tail0": lambda i: 0x41 if i < 2 else 0x00,  # trailing NULs
}
AMPLIFY_LIMIT = 20000


def payload_of(fill, n):
    f = FILLS[fill]
    return bytes(f(i) for i in range(n))


def known_clsids():
    """All 2-byte class/IDs that have a name (MGA ids collapsed)."""
    return sorted({k[0:2] for k in UBX_MSGIDS})


def nominal_len(clsid, ents):
    """Longest nominal payload (every group with one member) over the entries of a class/ID."""
    n = 0
    for e in ents:
        if e.clsid == clsid:
            pl = C.build_payload(e, lambda x: 1, 1, None, maxlen=4096)
            if pl is not None:
                n = max(n, len(pl))
    return n


def modes_of(clsid, ents):
    ms = sorted({e.mode for e in ents if e.clsid == clsid})
    return (ms or [GET]) + [SETPOLL]


def amplifies(mode, clsid, payload):
    """True if the reference walk of this frame would create more than AMPLIFY_LIMIT fields."""
    try:
        pd, key = C.table_entry_for(mode if mode != SETPOLL else SET, clsid, payload)
        if pd is None or pd == "nominal":
            if mode == SETPOLL:
                pd, key = C.table_entry_for(POLL, clsid, payload)
            if pd is None or pd == "nominal":
                return False
        L.Walk(pd, payload, True, L.special_of(mode, clsid), maxfields=AMPLIFY_LIMIT)
    except L.TooMany:
        return True
    except Exception:  # noqa: BLE001
        return False
    return False


def space_a_block(cls, lengths, fills):
    """All 256 IDs of class `cls`."""
    for mid in range(256):
        cid = bytes((cls, mid))
        for n in lengths:
            for fill in fills:
                pl = payload_of(fill, n)
                for mode in (GET, SET, POLL, SETPOLL):
                    for pbf in (1, 0):
                        yield cid, pl, mode, pbf


def space_b_block(clsid, ents, quick, restricted_log=None):
    nom = nominal_len(clsid, ents)
    modes = modes_of(clsid, ents)
    if quick:
        lengths = sorted({0, 1, 2, max(nom - 1, 0), nom, nom + 1, nom + 16})
        fills = ("inc", "ff", "tail0")
    else:
        lengths = list(range(0, nom + 17))
        fills = ("00", "ff", "inc", "55aa", "ws", "tail0")
    boundary = sorted({0, 1, nom}) if quick else sorted({0, 1, 2, 3, max(nom - 1, 0), nom, nom + 1, nom + 16})
    for fill in fills:
        for mode in modes:
            # probe: does this (class/ID, fill, mode) amplify at its nominal+16 length?
            amp = amplifies(mode, clsid, payload_of(fill, nom + 16)) or amplifies(mode, clsid, payload_of(fill, 8))
            ls = [n for n in lengths if (not amp) or n in boundary]
            if amp and restricted_log is not None:
                restricted_log.add(f"{clsid.hex()}|{fill}|mode={mode}")
            for n in ls:
                pl = payload_of(fill, n)
                for pbf in (1, 0):
                    yield clsid, pl, mode, pbf


# incl. payloads that make class+id+length+payload an exact multiple of 256 bytes (252, 508, ...)
EXTREME_LENGTHS = (251, 252, 253, 255, 256, 257, 508, 511, 512, 513, 764, 768, 1024, 4092, 4095, 4096, 4097, 32764, 32767, 32768, 65280, 65531, 65532, 65534, 65535)
EXTREME_IDS = (b"\x05\x01", b"\x01\x35", b"\x0a\x04", b"\x00\x00", b"\x21\x04")  # fixed, counted, var-by-size, unknown, LOG-STRING


def space_c():
    for cid in EXTREME_IDS:
        for n in EXTREME_LENGTHS:
            for mode in (GET, SET):
                yield cid, bytes(n), mode, 1
                yield cid, bytes((7 * i + 3) % 251 for i in range(n)), mode, 1  # content whose sums do not vanish
