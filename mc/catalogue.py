"""Catalogue of every (mode, table key) of the working tree's payload tables, with the route
(class/ID, pinned discriminator bytes or length) by which an API call reaches it, and the
reference prediction of what a payload must parse to."""
from mc import boot  # noqa: F401
from mc.refmodel import layout as L
from mc.refmodel.layout import GET, SET, POLL

import pyubx2
from pyubx2 import UBX_PAYLOADS_GET, UBX_PAYLOADS_SET, UBX_PAYLOADS_POLL, UBX_MSGIDS, UBX_CLASSES
from pyubx2.ubxtypes_configdb import UBX_CONFIG_DATABASE

TABLES = {GET: UBX_PAYLOADS_GET, SET: UBX_PAYLOADS_SET, POLL: UBX_PAYLOADS_POLL}
MODENAME = {GET: "GET", SET: "SET", POLL: "POLL"}
CFGDB_BY_ID = {}
for _n, (_k, _t) in UBX_CONFIG_DATABASE.items():
    CFGDB_BY_ID.setdefault(_k, (_n, _t))  # first name wins (as a linear scan does)

# variant table keys that are not message names: (class/ID, pins {offset: byte}, exact length or None)
VARIANT_ROUTES = {
    (GET, "AID-ALPSRV-REQ"): (b"\x0b\x32", {1: 0x01}, None),
    (GET, "AID-ALPSRV-SEND"): (b"\x0b\x32", {1: 0xFF}, None),
    (GET, "CFG-NMEAvX"): (b"\x06\x17", {}, 4),
    (GET, "CFG-NMEAv0"): (b"\x06\x17", {}, 12),
    (GET, "NAV-AOPSTATUS-L"): (b"\x01\x60", {}, 20),
    (GET, "NAV-RELPOSNED-V0"): (b"\x01\x3c", {0: 0x00}, None),
    (GET, "RXM-RLM-S"): (b"\x02\x59", {1: 0x01}, None),
    (GET, "RXM-RLM-L"): (b"\x02\x59", {1: 0x02}, None),
    (GET, "SEC-SIG-V1"): (b"\x27\x09", {0: 0x01}, None),
    (GET, "SEC-SIG-V2"): (b"\x27\x09", {0: 0x02}, None),
    (SET, "CFG-DAT-NUM"): (b"\x06\x06", {}, 2),
    (SET, "RXM-PMP-V0"): (b"\x02\x72", {0: 0x00}, None),
    (SET, "RXM-PMP-V1"): (b"\x02\x72", {0: 0x01}, None),
    (SET, "RXM-PMREQ-S"): (b"\x02\x41", {}, 8),
    (SET, "TIM-VCOCAL-V0"): (b"\x0d\x15", {0: 0x00}, 1),
    (POLL, "CFG-TP5-TPX"): (b"\x06\x31", {}, 1),
}
# base entries that are the 'else' branch of a selector need a pin too
BASE_PINS = {
    (GET, "NAV-RELPOSNED"): {0: 0x01},
    (SET, "TIM-VCOCAL"): {0: 0x02},
}
# GET RXM-PMP is served from the SET table's variant entries (same dict objects in both tables)
ALIAS_ROUTES = {
    (GET, "RXM-PMP-V0"): (b"\x02\x72", {0: 0x00}, None),
    (GET, "RXM-PMP-V1"): (b"\x02\x72", {0: 0x01}, None),
}
# entries nothing selects (O10)
UNROUTED = {(GET, "AID-ALP-ACK"), (GET, "SEC-UNIQID-V2"), (GET, "UBX-NOMINAL"), (SET, "CFG-NMEAv0"), (SET, "CFG-NMEAvX")}

NAME2ID = {}
for _b, _n in UBX_MSGIDS.items():
    NAME2ID.setdefault(_n, _b)


class Entry:
    __slots__ = ("mode", "key", "pdict", "clsid", "pins", "exact_len", "routed")

    def __init__(self, mode, key, pdict, clsid, pins, exact_len, routed):
        self.mode, self.key, self.pdict, self.clsid = mode, key, pdict, clsid
        self.pins, self.exact_len, self.routed = pins, exact_len, routed

    @property
    def label(self):
        return f"{MODENAME[self.mode]}:{self.key}"


def _processable(e):
    """Can the reference model process this definition at all?  (Ungrammatical definitions - a group
    sized by a later attribute, flags wider than their bitfield, malformed tuples - are C16's business;
    the table-driven checks skip them instead of crashing.)"""
    try:
        def flags_ok(d):
            for v in d.values():
                if isinstance(v, tuple):
                    if len(v) != 2:
                        return False
                    if L.is_bitfield_type(v[0]):
                        if sum(L.tsize(t) for t in v[1].values()) > 8 * L.tsize(v[0]):
                            return False
                    elif not flags_ok(v[1]):
                        return False
            return True

        if not flags_ok(e.pdict):
            return False
        for c in (1, 2):
            pl = build_payload(e, lambda x: c, c)
            if pl is None:
                continue
            w = L.Walk(e.pdict, pl, True, L.special_of(e.mode, e.clsid))
            L.Walk(e.pdict, pl, False, L.special_of(e.mode, e.clsid))
        return True
    except Exception:  # noqa: BLE001
        return False


_ENTRIES = None


def entries():
    """All table entries (cached); entries the reference model cannot process are marked unrouted."""
    global _ENTRIES
    if _ENTRIES is None:
        _ENTRIES = _entries()
        for e in _ENTRIES:
            if e.routed and not invalid_types(e.pdict) and not _processable(e):
                e.routed = False
                UNPROCESSABLE.add(e.label)
    return _ENTRIES


UNPROCESSABLE = set()


def _entries():
    out = []
    for mode, table in TABLES.items():
        for key, pdict in table.items():
            if (mode, key) in UNROUTED:
                out.append(Entry(mode, key, pdict, None, {}, None, False))
                continue
            r = VARIANT_ROUTES.get((mode, key)) or ALIAS_ROUTES.get((mode, key))
            if r:
                out.append(Entry(mode, key, pdict, r[0], dict(r[1]), r[2], True))
                continue
            b = NAME2ID.get(key)
            if b is None:
                out.append(Entry(mode, key, pdict, None, {}, None, False))
                continue
            pins = dict(BASE_PINS.get((mode, key), {}))
            if len(b) == 3:  # MGA: type byte pinned
                pins[0] = b[2]
                out.append(Entry(mode, key, pdict, b[0:2], pins, None, True))
            else:
                out.append(Entry(mode, key, pdict, b, pins, None, True))
    return out


def invalid_types(pdict):
    """Type strings in a definition that the scalar codec does not know (e.g. the FOO-BAR fixture)."""
    bad = []
    if not isinstance(pdict, dict):
        return [repr(pdict)[:40]]
    for v in pdict.values():
        if isinstance(v, tuple):
            if len(v) != 2 or not isinstance(v[1], dict):  # not a group / bitfield the grammar knows (C16 reports it)
                bad.append(repr(v)[:40])
                continue
            numr, sub = v
            if L.is_bitfield_type(numr):
                bad += [t for t in sub.values() if not (isinstance(t, str) and len(t) == 4 and t[1:].isdigit())]
            else:
                bad += invalid_types(sub)
        else:
            t = v[0] if isinstance(v, list) else v
            if not (L.is_type(t) and (t == "CH" or t[0] in "ACEILRUX")):
                bad.append(t)
    return bad


def table_entry_for(mode, clsid: bytes, payload: bytes):
    """Reference: (pdict, table key) describing a frame, ('nominal', None) for an unknown GET
    message, or (None, None) if the mode defines nothing for it (parser must refuse)."""
    sel = L.select_entry(mode, clsid, payload, UBX_MSGIDS)
    if sel is not None:
        tmode, key = sel
        if key is None:
            return (None, None)
        pd = TABLES[tmode].get(key)
        return (pd, key) if pd is not None else (None, None)
    if clsid[0:1] == b"\x13" and clsid != b"\x13\x80":
        name = UBX_MSGIDS.get(clsid + payload[0:1])
    else:
        name = UBX_MSGIDS.get(clsid)
    if name is None:
        return ("nominal", None) if mode == GET else (None, None)
    pd = TABLES[mode].get(name)
    if pd is None:
        return (None, None)
    return (pd, name)


def identity_of(clsid: bytes, payload: bytes):
    """Reference identity string of a frame."""
    if clsid[0:1] == b"\x13" and clsid != b"\x13\x80":
        name = UBX_MSGIDS.get(clsid + payload[0:1])
    else:
        name = UBX_MSGIDS.get(clsid)
    if name is not None:
        return name
    cls = UBX_CLASSES.get(clsid[0:1], "UNKNOWN")
    return f"{cls}-{clsid[0]:02x}{clsid[1]:02x}-NOMINAL"


def walk_frame(mode, clsid, payload, parsebf):
    """Reference walk of a payload; returns (Walk or None, key)."""
    pd, key = table_entry_for(mode, clsid, payload)
    if pd is None:
        return None, None
    if pd == "nominal":
        pd = {}
    return L.Walk(pd, payload, parsebf, L.special_of(mode, clsid)), key


CH_LEN = 5  # length given to a variable-length string payload (a zero-length payload is the null payload, O19)


def nominal_payload(e: Entry, counts=1, none_members=1, fill=None):
    """A payload laid out according to entry e: every counted group `counts` members, the
    variable-by-size group `none_members` members; bytes from `fill(i)` (default zero)."""
    return build_payload(e, lambda name: counts, none_members, fill)


def build_payload(e: Entry, count_of, none_members=1, fill=None, maxlen=70000):
    """Iteratively size the payload: write group counts into their size fields, then re-walk."""
    special = L.special_of(e.mode, e.clsid) if e.clsid else None
    size_fields = _size_fields(e.pdict)
    payload = bytearray()
    for _ in range(8):
        n = _measure(e.pdict, count_of, none_members, special)
        if e.exact_len is not None and n != e.exact_len:
            return None
        if n > maxlen:
            return None
        payload = bytearray((fill(i) if fill else 0) & 0xFF for i in range(n))
        for off, b in e.pins.items():
            if off < n:
                payload[off] = b
        ok = _write_counts(e, payload, count_of, special)
        if ok:
            break
    return bytes(payload)


def _size_fields(d):
    out = []
    for v in d.values():
        if isinstance(v, tuple) and not L.is_bitfield_type(v[0]) and isinstance(v[0], str) and v[0] != "None":
            out.append(v[0])
            out.extend(_size_fields(v[1]))
    return out


def _measure(d, count_of, none_members, special):
    n = 0
    for name, v in d.items():
        if isinstance(v, tuple):
            numr, sub = v
            if L.is_bitfield_type(numr):
                n += L.tsize(numr)
            elif special == "cfgval":
                n += 0
            else:
                if isinstance(numr, int):
                    c = numr
                elif numr == "None":
                    c = none_members
                else:
                    c = count_of(numr)
                n += c * _measure(sub, count_of, none_members, None)
        elif isinstance(v, list):
            n += L.tsize(v[0])
        elif v == "CH":
            n += CH_LEN
        else:
            n += L.tsize(v)
    return n


def _write_counts(e, payload, count_of, special):
    """Set every group-size field (plain attribute or bit flag, top level) to its count."""
    off = 0
    for name, v in e.pdict.items():
        if isinstance(v, tuple):
            numr, sub = v
            if L.is_bitfield_type(numr):
                size = L.tsize(numr)
                bo = 0
                word = int.from_bytes(payload[off : off + size], "little")
                for fname, ftype in sub.items():
                    bits = L.tsize(ftype)
                    if fname in _size_fields(e.pdict):
                        c = count_of(fname)
                        if c >= (1 << bits):
                            return True
                        word = (word & ~(((1 << bits) - 1) << bo)) | (c << bo)
                    if special == "esfmeas" and fname == "calibTtagValid":
                        word &= ~(1 << bo)
                    bo += bits
                payload[off : off + size] = word.to_bytes(size, "little")
                off += size
            else:
                return True  # groups come after their size fields; stop at the first group
        else:
            t = v[0] if isinstance(v, list) else v
            size = 0 if t == "CH" else L.tsize(t)
            if name in _size_fields(e.pdict):
                c = count_of(name)
                if c < (1 << (8 * size)):
                    payload[off : off + size] = c.to_bytes(size, "little")
            off += size
    return True
