"""Run in a FRESH interpreter (python -m mc.threadvals): pyubx2 is imported by the main thread, as in an
application; the same keyword constructions are then performed in the main thread, in a freshly started
thread, and in the main thread again.  Prints one JSON line {"here": [...], "there": [...], "again": [...]}.

(The checks' worker processes are forked from helper threads of a process pool, so "the thread that imported
the library" does not exist in them - hence the separate interpreter.)"""
import json
import threading

from mc import boot  # noqa: F401

from pyubx2 import GET, SET, UBXMessage


def build_all():
    out = []
    for k in range(64):
        for fn in (
            lambda: UBXMessage("MGA", "MGA-GPS-EPH", SET, type=1, svId=7, sqrtA=(2702000000 + k) * 2 ** -19, e=(123456700 + k) * 2 ** -33),
            lambda: UBXMessage("MGA", "MGA-GLO-EPH", SET, type=1, svId=3, x=(1792821380 + k) * 2 ** -11),
            lambda: UBXMessage("NAV", "NAV-POSLLH", GET, lon=(-841796500 - k) * 1e-7, height=(84179650 + k) * 1.0),
            lambda: UBXMessage("NAV", "NAV-DOP", GET, gDOP=(8400 + k) * 0.01),
        ):
            try:
                out.append(fn().serialize().hex())
            except Exception as ex:  # noqa: BLE001
                out.append(type(ex).__name__)
    return out


if __name__ == "__main__":
    here = build_all()
    there = []
    t = threading.Thread(target=lambda: there.extend(build_all()))
    t.start()
    t.join()
    print(json.dumps({"here": here, "there": there, "again": build_all()}))
