"""Bounded exhaustive explorer: sharded enumeration, choice-point DFS, bookkeeping.

Two styles of exploration share the bookkeeping in this module.

* Product / lattice spaces (inputs, byte strings, token sequences, cut points, fault
  positions): the check supplies a deterministic list of *blocks*; `sweep` maps
  `eval_block(block, acc)` over them on a process pool.  Every block enumerates its part of
  the space completely; nothing is sampled.  VERIF_SEED only permutes the order in which
  blocks are handed out.
* Environment / schedule spaces (recv() answers, thread preemptions): `explore` drives a
  `run(chooser)` function through every sequence of answers at its choice points by
  depth-first replay, optionally under a deviation bound and with state merging.

Both record into an `Acc`: executions, transitions on the real code, distinct states,
distinct outcomes, violations (one minimal replayable case per finding key) and samples.
"""
import hashlib
import json
import multiprocessing as mp
import os
import random
import sys
import time
import traceback
from collections import Counter

from mc import boot

MAX_SAMPLES = 6
MAX_REPLAYED = 24  # distinct finding keys replayed (twice each) and written out per run


def jhash(obj) -> str:
    return hashlib.sha256(
        json.dumps(obj, sort_keys=True, default=str).encode()
    ).hexdigest()[:16]


def _case_order(case):
    s = json.dumps(case, sort_keys=True, default=str)
    return (len(s), s)


class Acc:
    """Accumulator for one shard (merged in the parent)."""

    def __init__(self):
        self.evaluations = 0  # executions of the real code
        self.transitions = 0  # steps taken on the real code (reads, attributes compared, ...)
        self.states = set()  # canonical state / outcome-class keys (hashable, small)
        self.nstates = 0  # states counted without a set (provably distinct by construction)
        self.outcomes = Counter()  # observed outcome classes
        self.nontrivial = 0
        self.viol = {}  # key -> [count, case, detail]
        self.samples = []
        self.extra = Counter()
        self.notes = {}  # key -> set of small strings
        self.caps = []
        self.block = None  # the block being evaluated (set by the worker)

    def violation(self, key: str, case: dict, detail: str):
        cur = self.viol.get(key)
        if cur is None:
            self.viol[key] = [1, case, detail, self.block]
        else:
            cur[0] += 1
            if _case_order(case) < _case_order(cur[1]):
                cur[1], cur[2] = case, detail

    def sample(self, s):
        if len(self.samples) < MAX_SAMPLES:
            self.samples.append(s)

    def note(self, key, val):
        self.notes.setdefault(key, set()).add(val)

    def merge(self, o: "Acc"):
        self.evaluations += o.evaluations
        self.transitions += o.transitions
        self.states |= o.states
        self.nstates += o.nstates
        self.outcomes.update(o.outcomes)
        self.nontrivial += o.nontrivial
        for k, (n, case, detail, blk) in o.viol.items():
            cur = self.viol.get(k)
            if cur is None:
                self.viol[k] = [n, case, detail, blk]
            else:
                cur[0] += n
                if _case_order(case) < _case_order(cur[1]):
                    cur[1], cur[2] = case, detail
        for s in o.samples:
            if len(self.samples) < MAX_SAMPLES and s not in self.samples:
                self.samples.append(s)
        self.extra.update(o.extra)
        for k, v in o.notes.items():
            self.notes.setdefault(k, set()).update(v)
        self.caps.extend(c for c in o.caps if c not in self.caps)


# --------------------------------------------------------------------------------------
# sharded sweep
# --------------------------------------------------------------------------------------

_EVAL = None


class BlockBudget(BaseException):
    """A block used more CPU time than any block legitimately needs (a pathologically slow library)."""


BLOCK_CPU_BUDGET = float(os.environ.get("VERIF_BLOCK_CPU_S", "2400"))  # slowest legitimate block: a few minutes
SLOW_STOP_S = float(os.environ.get("VERIF_SLOW_STOP_S", "900"))


def _budget_handler(signum, frame):
    raise BlockBudget()


def _worker(block):
    import signal
    acc = Acc()
    acc.block = block
    t = time.time()
    try:
        signal.signal(signal.SIGPROF, _budget_handler)
        signal.setitimer(signal.ITIMER_PROF, BLOCK_CPU_BUDGET)
    except Exception:  # noqa: BLE001
        pass
    try:
        _EVAL(block, acc)
    except BlockBudget:
        # not a verdict about the property: the findings made so far are kept, the rest of the block is a stated cap
        acc.caps.append(f"block {block!r:.80} stopped after {BLOCK_CPU_BUDGET:.0f} s of CPU time")
        acc.extra["blocks_over_cpu_budget"] += 1
    except BaseException:  # a crash of the harness is "broken", never a violation
        return ("broken", block, traceback.format_exc())
    finally:
        try:
            signal.setitimer(signal.ITIMER_PROF, 0)
        except Exception:  # noqa: BLE001
            pass
    if os.environ.get("VERIF_PROFILE"):
        dt = time.time() - t
        if dt > float(os.environ["VERIF_PROFILE"]):
            print(f"PROFILE {dt:.1f}s {block!r:.100}", flush=True)
    return ("ok", block, acc)


def sweep(blocks, eval_block, acc: Acc = None, workers=None, label=""):
    """Evaluate every block (completely); returns merged Acc.  Raises Broken on harness error."""
    global _EVAL
    acc = acc or Acc()
    blocks = list(blocks)
    order = list(range(len(blocks)))
    random.Random(boot.SEED).shuffle(order)
    workers = workers or boot.WORKERS
    _EVAL = eval_block
    if workers <= 1 or len(blocks) <= 1:
        broken = []
        for i in order:
            st, blk, res = _worker(blocks[i])
            if st != "ok":
                broken.append((blk, res))
                continue
            acc.merge(res)
        _settle_broken(acc, broken)
        return acc
    ctx = mp.get_context("fork")
    # one task per worker process: every block starts from the parent's (pristine) module state, so a
    # block's verdict never depends on which blocks the same worker happened to run before
    t_start = time.time()
    done = 0
    broken = []
    with ctx.Pool(workers, maxtasksperchild=1) as pool:
        for st, blk, res in pool.imap_unordered(
            _worker, [blocks[i] for i in order], chunksize=1
        ):
            if st != "ok":
                broken.append((blk, res))
                if len(broken) > 8:
                    pool.terminate()
                    break
                continue
            acc.merge(res)
            done += 1
            if acc.viol and time.time() - t_start > SLOW_STOP_S:
                # violations are established and the run is far slower than on a tree where the property holds:
                # stop exploring (the verdict cannot change any more), and say so
                pool.terminate()
                acc.caps.append(f"sweep stopped after {done} of {len(blocks)} blocks: violations found and {SLOW_STOP_S:.0f} s exceeded")
                break
    _settle_broken(acc, broken)
    return acc


def _settle_broken(acc, broken):
    """A block whose harness crashed was not evaluated.  That alone is 'broken' (exit 2), never a violation; but
    violations established (and replayed) in the blocks that did run stand, with the crashed blocks a stated cap."""
    if not broken:
        return
    if not acc.viol:
        blk, res = broken[0]
        raise Broken(f"harness error in block {blk!r}:\n{res}")
    for blk, res in broken:
        last = res.strip().splitlines()[-1] if res.strip() else ""
        acc.caps.append(f"block {blk!r:.80} not evaluated: harness crashed ({last:.120})")
        print(f"HARNESS-ERROR (block not evaluated) {blk!r:.80}: {last:.160}", file=sys.stderr, flush=True)


def replay_block(block):
    """Evaluate one block in a freshly forked child of this process; returns [(key, detail)]."""
    import pickle

    r, w = os.pipe()
    pid = os.fork()
    if pid == 0:
        try:
            os.close(r)
            a = Acc()
            a.block = block
            try:
                _EVAL(block, a)
                out = [(k, v[2]) for k, v in a.viol.items()]
            except BaseException:  # noqa: BLE001
                out = [("<block replay crashed>", traceback.format_exc())]
            with os.fdopen(w, "wb") as f:
                pickle.dump(out, f)
        finally:
            os._exit(0)
    os.close(w)
    with os.fdopen(r, "rb") as f:
        data = f.read()
    os.waitpid(pid, 0)
    return pickle.loads(data)


def replay_forked(replay_case, case):
    """replay_case(case) in a freshly forked child: the parent process never executes a replay itself, so one
    replay cannot pollute process-global library state seen by the next (history-dependent findings)."""
    import pickle

    r, w = os.pipe()
    pid = os.fork()
    if pid == 0:
        try:
            os.close(r)
            try:
                out = ("ok", [(k, d) for k, d in replay_case(case)])
            except BaseException:  # noqa: BLE001
                out = ("crash", traceback.format_exc())
            with os.fdopen(w, "wb") as f:
                pickle.dump(out, f)
        finally:
            os._exit(0)
    os.close(w)
    with os.fdopen(r, "rb") as f:
        data = f.read()
    os.waitpid(pid, 0)
    st, out = pickle.loads(data) if data else ("crash", "replay child died without a result")
    if st == "crash":
        raise RuntimeError(out)
    return out


class Broken(Exception):
    """The check itself failed (harness error, vacuous exploration, replay divergence)."""


# --------------------------------------------------------------------------------------
# choice-point DFS
# --------------------------------------------------------------------------------------


class Pruned(BaseException):
    """Raised inside an execution whose state has been expanded before."""


class Chooser:
    """Replays a prefix of choices, then takes alternative 0; records every point."""

    def __init__(self, prefix, seen=None):
        self.prefix = prefix
        self.choices = []
        self.widths = []
        self.costs = []  # deviation cost of each alternative list
        self.seen = seen
        self.pruned = False

    def choose(self, n: int, label=None, key=None, costs=None) -> int:
        """Return an alternative in range(n).  `key`: canonical state at this point (for
        merging); `costs`: per-alternative deviation cost (default: 0 for alt 0, else 1)."""
        i = len(self.choices)
        if i < len(self.prefix):
            c = self.prefix[i]
            if c >= n:
                raise Broken(
                    f"replay divergence at point {i} ({label}): choice {c} of {n}"
                )
        else:
            if key is not None and self.seen is not None:
                if key in self.seen:
                    self.pruned = True
                    raise Pruned()
                self.seen.add(key)
            c = 0
        self.choices.append(c)
        self.widths.append(n)
        self.costs.append(costs)
        return c


def explore(run, bound=None, merge=True, on_exec=None, max_exec=None, root_prefix=None, dev_shard=None):
    """Depth-first enumeration of every choice sequence of `run(chooser)`.

    bound: maximum total deviation cost (None = unbounded).
    merge: enable state merging through `key=` at choice points.
    Returns dict(executions, pruned, points, states, capped).
    """
    # root_prefix: explore only below this choice prefix; dev_shard=(k, K): of the executions'
    # first deviations, only those at positions i with i % K == k are expanded (sharding a
    # deviation-bounded search over several workers: the union over k is the whole space).
    seen = set() if merge else None
    stats = dict(executions=0, pruned=0, points=0, states=0, capped=False)
    root = list(root_prefix or [])
    stack = [root]
    while stack:
        prefix = stack.pop()
        ch = Chooser(prefix, seen)
        try:
            result = run(ch)
            pruned = False
        except Pruned:
            result = None
            pruned = True
        stats["executions"] += 1
        stats["points"] += len(ch.choices) - len(prefix)
        if pruned:
            stats["pruned"] += 1
        elif on_exec is not None:
            if on_exec(ch, result) == "stop":  # the caller has seen enough (e.g. repeated violations)
                stats["capped"] = True
                stats["stopped_by_caller"] = True
                break
        if max_exec and stats["executions"] >= max_exec:
            stats["capped"] = True
            break
        # deviation cost accumulated before each point
        cost = 0
        pre = []
        for i, c in enumerate(ch.choices):
            pre.append(cost)
            cs = ch.costs[i]
            cost += (cs[c] if cs else (0 if c == 0 else 1))
        for i in range(len(ch.choices) - 1, max(len(prefix), len(root)) - 1, -1):
            cs = ch.costs[i]
            for alt in range(ch.widths[i] - 1, 0, -1):
                ac = cs[alt] if cs else 1
                if bound is not None and pre[i] + ac > bound:
                    continue
                if dev_shard is not None and pre[i] == 0 and ac > 0 and i % dev_shard[1] != dev_shard[0]:
                    continue
                stack.append(ch.choices[:i] + [alt])
    stats["states"] = len(seen) if seen is not None else 0
    return stats


# --------------------------------------------------------------------------------------
# known findings, evidence, reporting
# --------------------------------------------------------------------------------------


def load_known(prop):
    path = os.path.join(boot.VERIF_ROOT, "known_findings.json")
    try:
        with open(path) as f:
            data = json.load(f)
    except FileNotFoundError:
        return {}
    return {
        e["key"]: e
        for e in data.get("findings", [])
        if e.get("property") == prop and e.get("status") == "open"
    }


def finish(
    prop,
    tier,
    acc: Acc,
    t0,
    replay_case,
    rule,
    assumptions,
    exhaustive=True,
    extra_cov=None,
    vacuity=None,
    states=None,
):
    """Post-process: vacuity guards, known findings, double replay, evidence, exit code."""
    # vacuity guards: (description, bool)
    for desc, ok in vacuity or []:
        if not ok:
            print(f"BROKEN: vacuous exploration: {desc}")
            sys.exit(2)
    known = load_known(prop)
    rdir = os.path.join(os.environ.get("VERIF_REPLAY_DIR") or os.path.join(boot.VERIF_ROOT, "replays"), prop)
    os.makedirs(rdir, exist_ok=True)
    nviol = 0
    lines = []
    unreproducible = []
    seen_known = set()
    unknown = [k for k in sorted(acc.viol) if k not in known]
    skipped = unknown[MAX_REPLAYED:]
    for key in sorted(acc.viol):
        n, case, detail, blk = acc.viol[key]
        if key in skipped:
            continue  # a flood of distinct findings: the first MAX_REPLAYED are replayed and reported in full
        # determinism: replay twice without the explorer, same finding key both times
        for attempt in range(2):
            try:
                got = replay_forked(replay_case, case) if "__block__" not in case else replay_block(case["__block__"])
            except BaseException:
                print(f"BROKEN: replay of {key} crashed:\n{traceback.format_exc()}")
                sys.exit(2)
            if key not in [k for k, _ in got]:
                # the single case does not fail on its own: does the block it came from (executed from the
                # pristine state in a fresh process, i.e. the complete history of that case) fail again?
                if attempt == 0 and blk is not None and _EVAL is not None:
                    case = {"__block__": blk, "note": "history-dependent: the single case passes alone; replay re-executes its block", "single_case": case}
                    got = replay_block(blk)
                    if key in [k for k, _ in got]:
                        continue
                unreproducible.append(key)
                lines.append(
                    f"UNREPRODUCIBLE: finding {key!r} was observed during exploration but neither its case nor its block "
                    f"reproduced it (got {[k for k, _ in got][:3]}); not reported as a violation"
                )
                break
        if unreproducible and unreproducible[-1] == key:
            continue
        if key in known:
            seen_known.add(key)
            lines.append(
                f"KNOWN-FINDING: property={prop} {key} :: {known[key].get('what', '')} "
                f"({n} cases)"
            )
            continue
        nviol += 1
        path = os.path.join(rdir, f"{jhash(key)}.json")
        with open(path, "w") as f:
            json.dump(
                {
                    "property": prop,
                    "key": key,
                    "count": n,
                    "case": case,
                    "detail": detail,
                    "replay": f"/venv/bin/python -m checks.{prop.lower()} --replay {path}",
                },
                f,
                indent=1,
                default=str,
            )
        lines.append(f"VIOLATION property={prop} replay={path}")
        lines.append(f"  key={key} cases={n} detail={detail}")
    if skipped:
        nviol += len(skipped)
        lines.append(f"  ... and {len(skipped)} more distinct finding keys (not replayed individually), e.g. {skipped[0]}")
    wall = time.time() - t0
    nstates = states if states is not None else (len(acc.states) + acc.nstates)
    cov = {
        "states": max(nstates, 0),
        "transitions": acc.transitions,
        "traces_validated_against_impl": acc.evaluations,
        "evaluations": acc.evaluations,
        "distinct_nontrivial": len(acc.outcomes) if not acc.nontrivial else acc.nontrivial,
        "rule": rule,
        "samples": acc.samples[:MAX_SAMPLES] or ["<none>"],
        "exhaustive": bool(exhaustive and not acc.caps),
        "distinct_outcomes": len(acc.outcomes),
        "outcomes_top": {str(k): v for k, v in acc.outcomes.most_common(12)},
        "caps": acc.caps,
        "counters": {str(k): v for k, v in acc.extra.items()},
        "known_findings_matched": sorted(seen_known),
        "workers": boot.WORKERS,
        "source_tree": boot.SRC,
    }
    for k, v in acc.notes.items():
        cov[f"note_{k}"] = sorted(v)[:200]
    if extra_cov:
        cov.update(extra_cov)
    ev = {
        "property_id": prop,
        "tier": tier,
        "seed": boot.SEED,
        "level": "model_checking",
        "coverage": cov,
        "assumptions": assumptions,
        "wall_s": round(wall, 2),
        "violations": nviol,
    }
    edir = os.environ.get("VERIF_EVIDENCE_DIR") or os.path.join(boot.VERIF_ROOT, "evidence")
    os.makedirs(edir, exist_ok=True)
    with open(os.path.join(edir, f"{prop}.json"), "w") as f:
        json.dump(ev, f, indent=1, default=str)
    for ln in lines:
        print(ln)
    if unreproducible and not nviol:
        print(f"BROKEN: {len(unreproducible)} finding(s) could not be reproduced and none could (nondeterminism outside the harness's control)")
        sys.exit(2)
    print(
        f"{prop} tier={tier} seed={boot.SEED} executions={acc.evaluations} "
        f"transitions={acc.transitions} states={cov['states']} outcomes={len(acc.outcomes)} "
        f"violations={nviol} known={len(seen_known)} wall={wall:.1f}s"
    )
    sys.exit(1 if nviol else 0)


def main(prop, run_tier, replay_case, eval_block=None):
    """Common CLI: --tier quick|thorough | --replay FILE."""
    import argparse

    ap = argparse.ArgumentParser()
    ap.add_argument("--tier", default=os.environ.get("VERIF_TIER", "quick"))
    ap.add_argument("--replay")
    a = ap.parse_args()
    if a.replay:
        with open(a.replay) as f:
            rec = json.load(f)
        global _EVAL
        if "__block__" in rec["case"]:
            _EVAL = eval_block
            blk = rec["case"]["__block__"]
            blk = tuple(tuple(x) if isinstance(x, list) and False else x for x in blk) if isinstance(blk, list) else blk
            got = replay_block(blk)
        else:
            got = replay_case(rec["case"])
        print(json.dumps({"expected_key": rec.get("key"), "observed": got}, indent=1, default=str))
        if rec.get("key") in [k for k, _ in got]:
            print(f"VIOLATION property={prop} replay={a.replay}")
            sys.exit(1)
        print("replay: violation not reproduced on this tree")
        sys.exit(0)
    tier = "thorough" if a.tier.startswith("t") else "quick"
    t0 = time.time()
    try:
        run_tier(tier, t0)
    except Broken as e:
        print(f"BROKEN: {e}")
        sys.exit(2)
