"""Routes by which an API user builds a message of a given catalogue entry."""
from mc import boot  # noqa: F401
from mc import catalogue as C
from mc.refmodel import layout as L
from mc.refmodel.layout import GET, SET, POLL

from pyubx2 import UBXMessage

# entries that by documented design can only be built from a payload (pinned allow-list, DESIGN C03)
PAYLOAD_ONLY = {
    (GET, "CFG-VALGET"), (SET, "CFG-VALSET"),
    (GET, "CFG-NMEA"), (GET, "CFG-NMEAvX"), (GET, "CFG-NMEAv0"),
    (GET, "NAV-AOPSTATUS"), (GET, "NAV-AOPSTATUS-L"),
    (SET, "RXM-PMREQ-S"),
}


def first_plain(pdict):
    for k, v in pdict.items():
        if not isinstance(v, tuple):
            return k, (v[0] if isinstance(v, list) else v)
    return None, None


def route_kwargs(e: C.Entry):
    """Minimal keyword arguments that select entry e through the keyword route, or None if the
    entry is payload-only.  (Discriminator pins become keywords; length-selected variants use the
    keyword the selector documents.)"""
    if (e.mode, e.key) in PAYLOAD_ONLY:
        return None
    kw = {}
    if e.pins:
        # which attribute lives at each pinned offset (reference walk of a nominal payload)
        pl = C.build_payload(e, lambda x: 1, 1)
        w, _ = C.walk_frame(e.mode, e.clsid, pl, True)
        for off, b in e.pins.items():
            for f in w.fields:
                if f.kind == "plain" and f.off == off and f.size == 1:
                    kw[f.name] = b
    if (e.mode, e.key) == (SET, "CFG-DAT-NUM"):
        kw["datumNum"] = 0
    if (e.mode, e.key) == (POLL, "CFG-TP5-TPX"):
        kw["tpIdx"] = 0
    if (e.mode, e.key) == (SET, "RXM-PMREQ"):
        kw["version"] = 0
    return kw


def trivial_kwarg(e: C.Entry, kw):
    """The constructor treats 'no keywords' as a null payload; add one nominal keyword if needed."""
    if kw:
        return kw
    name, t = first_plain(e.pdict)
    if name is None:
        # definition starts with a bitfield or a group: use a name that is not an attribute; harmless
        return {"_x_unused": 0}
    return {name: L.nominal(t)}


def build_kw(e: C.Entry, extra=None, parsebitfield=True):
    kw = route_kwargs(e)
    if kw is None:
        raise LookupError("payload-only")
    kw = dict(kw)
    if extra:
        kw.update(extra)
    kw = trivial_kwarg(e, kw)
    return UBXMessage(e.clsid[0:1], e.clsid[1:2], e.mode, parsebitfield=parsebitfield, **kw)


def build_payload_route(e: C.Entry, payload: bytes, parsebitfield=True):
    return UBXMessage(e.clsid[0:1], e.clsid[1:2], e.mode, parsebitfield=parsebitfield, payload=payload)
