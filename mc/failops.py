"""A sweep of operations that FAIL part-way through a definition - shared by the checks that re-examine
the library *after* failures in the same process (a failed parse or construction must leave nothing behind).

For every routed definition with a group: the payload with two members per group cut by 1..16 bytes (the
parse walks into the last member and runs out of data), in both bitfield views; and, for keyword-
constructible definitions, a keyword construction in which the second member of each counted group gets a
value it cannot take (an object, -1, a str)."""
from mc import catalogue as C, construct as K
from mc.refmodel import core as ref

from pyubx2 import UBXMessage, UBXReader


def run_failing_operations():
    """Returns the number of operations that raised."""
    nfail = 0
    for e in C.entries():
        if not e.routed or C.invalid_types(e.pdict):
            continue
        groups = [(k, v) for k, v in e.pdict.items() if isinstance(v, tuple)]
        if not groups:
            continue
        pl = C.build_payload(e, lambda x: 2, 2, lambda i: (3 * i + 1) % 200)
        if pl:
            for cut in range(1, min(17, len(pl))):
                for pbf in (1, 0):
                    try:
                        UBXReader.parse(ref.frame(e.clsid[0], e.clsid[1], pl[:-cut]), msgmode=e.mode, parsebitfield=pbf)
                    except Exception:  # noqa: BLE001
                        nfail += 1
        if K.route_kwargs(e) is None:
            continue
        for _, (cnt, members) in groups:
            if not isinstance(cnt, str) or cnt == "None":
                continue
            for mname, mtyp in members.items():
                if isinstance(mtyp, (tuple, dict)):
                    continue
                for bad in (object(), -1, "x" * 3):
                    try:
                        UBXMessage(e.clsid[0:1], e.clsid[1:2], e.mode, **{cnt: 2, mname + "_02": bad})
                    except Exception:  # noqa: BLE001
                        nfail += 1
    return nfail
