"""Environment-socket driver: a socket.socket subclass whose recv() answers are choice points.

Every recv(n) call asks the explorer how many bytes (1..min(n, remaining)) arrive; once all
bytes are delivered the fixed end condition of the run applies (peer closed -> b"", timeout ->
TimeoutError, reset -> ConnectionResetError).  SocketWrapper.read / readline are observed by
wrapping the class attributes (the public API named by the property), not private state.
"""
import hashlib
import socket

from mc import boot  # noqa: F401
from mc.streams import Horizon, Run, cfg_kwargs

import pyubx2
from pyubx2 import UBXReader
from pyubx2.socket_wrapper import SocketWrapper

POST_END_HORIZON = 64


class EnvSocket(socket.socket):
    def __init__(self, data: bytes, chooser, end: str):  # pylint: disable=super-init-not-called
        self.data = data
        self.p = 0
        self.ch = chooser
        self.end = end
        self.post_end = 0
        self.recv_calls = 0
        self.hist = hashlib.blake2b(digest_size=8)
        self.log = []  # (kind, request, result) of every wrapper call
        self.wrapper = None
        self.depth = 0

    def recv(self, n, *a):  # noqa: D401
        self.recv_calls += 1
        rem = len(self.data) - self.p
        if rem <= 0:
            self.post_end += 1
            if self.post_end > POST_END_HORIZON:
                raise Horizon()
            if self.end == "close":
                return b""
            if self.end == "timeout":
                raise TimeoutError("timed out")
            raise ConnectionResetError(104, "Connection reset by peer")
        if not isinstance(n, int) or n <= 0:
            raise ValueError(f"recv called with bufsize {n!r}")
        m = min(n, rem)
        buf = b""
        if self.wrapper is not None:
            try:
                buf = bytes(self.wrapper.buffer)
            except Exception:  # noqa: BLE001
                buf = b"?"
        key = (self.p, buf, self.hist.digest(), n)
        c = self.ch.choose(m, "recv", key=key)
        size = m - c  # alternative 0 = everything that fits, then shorter and shorter
        out = self.data[self.p : self.p + size]
        self.p += size
        return out

    def close(self):
        pass

    def __del__(self):
        pass


_orig = {}
CURRENT = [None]  # the EnvSocket of the execution in progress


def install_observers():
    """Wrap SocketWrapper.read/readline (class level) to log (request, result) on the socket."""
    if _orig:
        return
    for name in ("read", "readline"):
        fn = getattr(SocketWrapper, name)
        _orig[name] = fn

        def make(fn, name):
            def obs(self, *a, **k):
                s = CURRENT[0]
                if s is None:
                    return fn(self, *a, **k)
                s.depth += 1
                try:
                    res = fn(self, *a, **k)
                finally:
                    s.depth -= 1
                if s.depth == 0:  # outermost call only (readline may be built on read)
                    req = a[0] if a else k.get("num")
                    s.log.append((name, req, bytes(res) if isinstance(res, (bytes, bytearray)) else res, s.p, s.post_end))
                    s.hist.update(repr((name, req, res)).encode())
                return res

            return obs

        setattr(SocketWrapper, name, make(fn, name))


def run_socket(data: bytes, cfg: dict, bufsize: int, end: str, chooser):
    """One execution of a real UBXReader over an EnvSocket.  Returns (Run, EnvSocket)."""
    install_observers()
    r = Run()
    sock = EnvSocket(data, chooser, end)
    CURRENT[0] = sock
    handler = None
    if cfg.get("handler"):
        def handler(err, r=r):
            r.errors.append(err)
    try:
        rd = UBXReader(sock, bufsize=bufsize, **cfg_kwargs(cfg, handler))
        sock.wrapper = rd.datastream
        limit = len(data) + 4
        while True:
            raw, parsed = rd.read()
            if raw is None and parsed is None:
                break
            r.items.append((raw, parsed))
            if len(r.items) > limit:
                r.horizon = True
                break
    except Horizon:
        r.horizon = True
    except Exception as e:  # noqa: BLE001
        r.raised = e
    finally:
        CURRENT[0] = None
    return r, sock
